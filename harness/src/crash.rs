//! E3 / C04 — crash-point x torn-write enumeration.
//!
//! `rlv crash` reads one job per stdin line:
//!   {"id", "opts", "ops": [{"sql": ..} | {"op": "compact"|"reopen"}], "tables": [..], "post": [sql...],
//!    "nested": "none"|"boundaries"|"all", "prefix_step": n (1 = every byte)}
//! It runs the history once with the crash-point recorder armed (a copy of the database directory is taken at
//! every persistence step; for write steps the bytes about to be written are kept), then recovers from EVERY
//! crash state (every step x every byte prefix of the write in flight), observes the tables, runs a post-recovery
//! script, reopens once more, and — one level deep — enumerates the crash points of the recovery itself.
//! Output: one JSON line per distinct observation (with the crash states that produced it) and a summary line.
use std::collections::BTreeMap;
use std::io::{BufRead, Write};
use std::path::{Path, PathBuf};
use std::sync::{Arc, Mutex};

use futures::FutureExt;
use risinglight::Database;
use serde_json::{Value, json};

use crate::sqlrun::{compact_now, paused_rt, run_stmt};
use crate::util::*;

/// First line of a panic message with digit runs replaced (positions inside files vary with the crash offset).
fn norm_panic(m: String) -> String {
    let first = m.lines().next().unwrap_or("").to_string();
    let mut out = String::new();
    let mut in_digits = false;
    for c in first.chars().take(160) {
        if c.is_ascii_digit() {
            if !in_digits {
                out.push('#');
            }
            in_digits = true;
        } else {
            in_digits = false;
            out.push(c);
        }
    }
    out
}

fn copy_dir(src: &Path, dst: &Path) {
    std::fs::create_dir_all(dst).unwrap();
    if let Ok(rd) = std::fs::read_dir(src) {
        for e in rd.flatten() {
            let p = e.path();
            let d = dst.join(e.file_name());
            if p.is_dir() {
                copy_dir(&p, &d);
            } else {
                let _ = std::fs::copy(&p, &d);
            }
        }
    }
}

#[derive(Clone)]
struct Cp {
    name: String,
    rel: PathBuf,
    bytes: Option<Vec<u8>>,
    snap: PathBuf,
    /// number of history operations completed when the step happened
    acked: usize,
    /// index of the operation in progress, if any
    inflight: Option<usize>,
}

#[derive(Default)]
struct Rec {
    dir: PathBuf,
    scratch: PathBuf,
    cps: Vec<Cp>,
    acked: usize,
    inflight: Option<usize>,
}

fn arm(rec: Arc<Mutex<Rec>>) {
    risinglight::verif::set_crash_recorder(Some(Box::new(move |name, path, bytes| {
        let mut r = rec.lock().unwrap();
        let k = r.cps.len();
        let snap = r.scratch.join(format!("s{k}"));
        // the database directory may not exist yet (boot.mkdir is reported after creation, so it does)
        copy_dir(&r.dir, &snap);
        let rel = path.strip_prefix(&r.dir).map(|p| p.to_path_buf()).unwrap_or_else(|_| path.to_path_buf());
        let (acked, inflight) = (r.acked, r.inflight);
        r.cps.push(Cp { name: name.to_string(), rel, bytes: bytes.map(|b| b.to_vec()), snap, acked, inflight });
    })));
}

fn disarm() {
    risinglight::verif::set_crash_recorder(None);
}

/// A statement result with its rows sorted (observations are compared as multisets).
fn sorted(mut v: Value) -> Value {
    if let Some(rows) = v.get_mut("rows").and_then(|r| r.as_array_mut()) {
        rows.sort_by_key(|r| r.to_string());
    }
    v
}

/// Recover from the directory `work` (already materialised) and observe.
/// If `rec` is given the recovery itself is recorded (nested crash points).
fn recover_and_observe(work: &Path, opts: &Value, tables: &[String], post: &[String], rec: Option<Arc<Mutex<Rec>>>) -> Value {
    let rt = paused_rt();
    let work_s = work.to_str().unwrap().to_string();
    let out = rt.block_on(async {
        if let Some(r) = &rec {
            arm(r.clone());
        }
        let opened = std::panic::AssertUnwindSafe(Database::new_on_disk(disk_opts(&work_s, opts))).catch_unwind().await;
        disarm();
        let db = match opened {
            Ok(db) => db,
            Err(e) => return json!({"open": {"panic": norm_panic(panic_msg(e))}}),
        };
        let mut o = json!({"open": "ok"});
        let mut first = BTreeMap::new();
        for t in tables {
            first.insert(t.clone(), sorted(run_stmt(&db, &format!("select * from {t}")).await));
        }
        o["tables"] = json!(first);
        if !post.is_empty() {
            // let the compactor's first pass (started at open) finish, so that the post-recovery statements do not
            // race it (a DELETE that loses that race is aborted with a conflict error, which is legitimate)
            tokio::time::sleep(std::time::Duration::from_millis(10)).await;
            let mut pr = vec![];
            for s in post {
                pr.push(run_stmt(&db, s).await);
            }
            o["post"] = json!(pr);
            let mut second = BTreeMap::new();
            for t in tables {
                second.insert(t.clone(), sorted(run_stmt(&db, &format!("select * from {t}")).await));
            }
            o["after_post"] = json!(second);
        }
        let sd = std::panic::AssertUnwindSafe(db.shutdown()).catch_unwind().await;
        o["shutdown"] = match sd {
            Ok(Ok(())) => json!("ok"),
            Ok(Err(e)) => err_json(&e),
            Err(e) => json!({"panic": norm_panic(panic_msg(e))}),
        };
        drop(db);
        tokio::task::yield_now().await;
        if !post.is_empty() {
            // second recovery: same state
            match std::panic::AssertUnwindSafe(Database::new_on_disk(disk_opts(&work_s, opts))).catch_unwind().await {
                Ok(db2) => {
                    let mut third = BTreeMap::new();
                    for t in tables {
                        third.insert(t.clone(), sorted(run_stmt(&db2, &format!("select * from {t}")).await));
                    }
                    o["reopened"] = json!(third);
                    let _ = std::panic::AssertUnwindSafe(db2.shutdown()).catch_unwind().await;
                }
                Err(e) => o["reopened"] = json!({"open_panic": norm_panic(panic_msg(e))}),
            }
        }
        o
    });
    drop(rt);
    let _ = take_panics();
    out
}

fn materialise(cp: &Cp, j: Option<usize>, work: &Path) {
    let _ = std::fs::remove_dir_all(work);
    copy_dir(&cp.snap, work);
    if let (Some(b), Some(j)) = (&cp.bytes, j) {
        use std::io::Write as _;
        let p = work.join(&cp.rel);
        if let Ok(mut f) = std::fs::OpenOptions::new().append(true).create(true).open(&p) {
            let _ = f.write_all(&b[..j]);
        }
    }
}

fn prefixes(cp: &Cp, step: usize) -> Vec<Option<usize>> {
    // manifest records are always torn at every byte offset (`step` thins data-file writes only)
    let step = if cp.name.starts_with("manifest") { 1 } else { step };
    match &cp.bytes {
        None => vec![None],
        Some(b) => {
            let mut v: Vec<usize> = (0..=b.len()).step_by(step.max(1)).collect();
            if *v.last().unwrap() != b.len() {
                v.push(b.len());
            }
            v.into_iter().map(Some).collect()
        }
    }
}

fn prefixes_nested(cp: &Cp, step: usize) -> Vec<Option<usize>> {
    match &cp.bytes {
        None => vec![None],
        Some(b) => {
            let mut v: Vec<usize> = (0..=b.len()).step_by(step.max(1)).collect();
            if *v.last().unwrap() != b.len() {
                v.push(b.len());
            }
            v.into_iter().map(Some).collect()
        }
    }
}

pub fn run_job(job: &Value, out: &mut impl Write) {
    let id = job["id"].clone();
    let opts = job.get("opts").cloned().unwrap_or(json!({"block": 64, "rowset": 1 << 20}));
    let tables: Vec<String> = job["tables"].as_array().unwrap().iter().map(|x| x.as_str().unwrap().to_string()).collect();
    let post: Vec<String> = job.get("post").and_then(|v| v.as_array()).map(|a| a.iter().map(|x| x.as_str().unwrap().to_string()).collect()).unwrap_or_default();
    let nested = job.get("nested").and_then(|v| v.as_str()).unwrap_or("boundaries").to_string();
    let step = job.get("prefix_step").and_then(|v| v.as_u64()).unwrap_or(1) as usize;
    let nested_step = job.get("nested_step").and_then(|v| v.as_u64()).unwrap_or(8) as usize;
    let ops = job["ops"].as_array().unwrap().clone();
    let base = PathBuf::from(fresh_dir("crash"));
    let _ = std::fs::remove_dir_all(&base);
    std::fs::create_dir_all(&base).unwrap();
    let dir = base.join("db");
    let rec = Arc::new(Mutex::new(Rec { dir: dir.clone(), scratch: base.join("snaps"), ..Default::default() }));

    // ---- 1. the recorded run
    let rt = paused_rt();
    let dir_s = dir.to_str().unwrap().to_string();
    let (op_results, acked_results): (Vec<Value>, Vec<Value>) = rt.block_on(async {
        arm(rec.clone());
        let mut db = Some(Database::new_on_disk(disk_opts(&dir_s, &opts)).await);
        let mut res = vec![];
        for (i, op) in ops.iter().enumerate() {
            rec.lock().unwrap().inflight = Some(i);
            let r = if let Some(sql) = op.get("sql").and_then(|v| v.as_str()) {
                run_stmt(db.as_ref().unwrap(), sql).await
            } else {
                match op["op"].as_str().unwrap_or("") {
                    "compact" => {
                        compact_now().await;
                        json!({"ok": true})
                    }
                    "reopen" => {
                        let d = db.take().unwrap();
                        let _ = d.shutdown().await;
                        drop(d);
                        tokio::task::yield_now().await;
                        db = Some(Database::new_on_disk(disk_opts(&dir_s, &opts)).await);
                        json!({"ok": true})
                    }
                    x => json!({"bad_op": x}),
                }
            };
            {
                let mut g = rec.lock().unwrap();
                g.inflight = None;
                g.acked = i + 1;
            }
            res.push(r);
            // let background work triggered by the statement (vacuum) run to completion
            tokio::time::sleep(std::time::Duration::from_millis(1)).await;
        }
        disarm();
        let mut fin = vec![];
        for t in &tables {
            fin.push(run_stmt(db.as_ref().unwrap(), &format!("select * from {t}")).await);
        }
        let _ = db.take().unwrap().shutdown().await;
        (res, fin)
    });
    drop(rt);
    let cps: Vec<Cp> = rec.lock().unwrap().cps.clone();

    // ---- 2. recover from every crash state
    let work = base.join("work");
    let mut groups: BTreeMap<String, (Value, usize, Vec<String>)> = BTreeMap::new();
    let (mut n_states, mut n_nested, mut n_torn) = (0usize, 0usize, 0usize);
    for (k, cp) in cps.iter().enumerate() {
        for j in prefixes(cp, step) {
            n_states += 1;
            materialise(cp, j, &work);
            let boundary = match (j, &cp.bytes) {
                (None, _) => true,
                (Some(j), Some(b)) => j == 0 || j == b.len(),
                _ => true,
            };
            if !boundary {
                n_torn += 1;     // the write in flight is neither absent nor complete
            }
            let do_nested = nested == "all" || (nested == "boundaries" && boundary);
            let nrec = if do_nested {
                Some(Arc::new(Mutex::new(Rec { dir: work.clone(), scratch: base.join("nsnaps"), ..Default::default() })))
            } else {
                None
            };
            let obs = recover_and_observe(&work, &opts, &tables, &post, nrec.clone());
            let label = format!("{k}:{}{}", cp.name, j.map(|j| format!("+{j}/{}", cp.bytes.as_ref().unwrap().len())).unwrap_or_default());
            let key_obj = json!({"acked": cp.acked, "inflight": cp.inflight, "obs": obs});
            let key = key_obj.to_string();
            let e = groups.entry(key).or_insert((key_obj, 0, vec![]));
            e.1 += 1;
            if e.2.len() < 4 {
                e.2.push(label.clone());
            }
            // ---- 3. crash during that recovery (one level deep): the state after recovering again must be the same
            if let Some(nrec) = nrec {
                let ncps: Vec<Cp> = nrec.lock().unwrap().cps.clone();
                let want = obs.get("tables").cloned();
                let nwork = base.join("nwork");
                for (nk, ncp) in ncps.iter().enumerate() {
                    for nj in prefixes_nested(ncp, nested_step) {
                        n_nested += 1;
                        materialise(ncp, nj, &nwork);
                        let nobs = recover_and_observe(&nwork, &opts, &tables, &[], None);
                        if nobs.get("tables") != want.as_ref() || nobs.get("open") != Some(&json!("ok")) {
                            let nlabel = format!("{label} >> {nk}:{}{}", ncp.name, nj.map(|j| format!("+{j}")).unwrap_or_default());
                            let key_obj = json!({"acked": cp.acked, "inflight": cp.inflight, "nested_mismatch": {"first_recovery": want, "second_recovery": nobs}});
                            let key = key_obj.to_string();
                            let e = groups.entry(key).or_insert((key_obj, 0, vec![]));
                            e.1 += 1;
                            if e.2.len() < 4 {
                                e.2.push(nlabel);
                            }
                        }
                    }
                }
                let _ = std::fs::remove_dir_all(base.join("nsnaps"));
            }
        }
    }
    let mut gs = vec![];
    for (_, (obj, count, examples)) in groups {
        let mut o = obj;
        o["count"] = json!(count);
        o["examples"] = json!(examples);
        gs.push(o);
    }
    let names: Vec<String> = cps.iter().map(|c| c.name.clone()).collect();
    let _ = writeln!(out, "{}", json!({"id": id, "groups": gs, "summary": {"crash_points": cps.len(), "crash_states": n_states, "torn_states": n_torn, "nested_states": n_nested,
        "op_results": op_results, "final": acked_results, "point_names": names}}));
    let _ = std::fs::remove_dir_all(&base);
}

pub fn main(_args: &[String]) -> i32 {
    let stdin = std::io::stdin();
    let stdout = std::io::stdout();
    for line in stdin.lock().lines() {
        let Ok(line) = line else { break };
        if line.trim().is_empty() {
            continue;
        }
        let job: Value = serde_json::from_str(&line).unwrap();
        let seed = job.get("_seed").and_then(|v| v.as_u64()).unwrap_or(0);
        let buf = on_fresh_thread(seed, move || {
            let mut buf: Vec<u8> = vec![];
            run_job(&job, &mut buf);
            buf
        });
        let mut o = stdout.lock();
        let _ = o.write_all(&buf);
        let _ = o.flush();
    }
    0
}
