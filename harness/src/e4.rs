//! E4 — gate scheduler: stateless model checking of the real tokio tasks of the disk engine.
//!
//! `rlv e4` reads one workload (JSON) per stdin line and explores every interleaving of its actors at
//! the instrumented yield points (`risinglight::verif::point`) up to a preemption bound, CHESS style:
//! an execution replays a prefix of choices (gate labels), then follows the default policy (keep
//! running the actor that ran last); alternatives are pushed for every step whose preemption count
//! stays within the bound. One JSON line is printed per execution, then a summary line.
//!
//! workload = {"name", "opts", "setup": [sql...], "actors": [{"name", "stmts": [sql...]}],
//!             "passes": K (compactor passes released; the K+1st is the horizon), "bound": preemptions,
//!             "max_execs": cap, "tables": [names to observe at the end], "check_pins": bool}
use std::collections::BTreeMap;
use std::io::{BufRead, Write};
use std::sync::atomic::{AtomicBool, Ordering::SeqCst};
use std::sync::{Arc, Mutex};

use futures::FutureExt;
use risinglight::Database;
use risinglight::verif::{ACTOR, SCHED, Sched};
use serde_json::{Value, json};

use crate::sqlrun::{run_stmt, run_stmt_opt};
use crate::util::*;

static QUIET: AtomicBool = AtomicBool::new(false);

pub struct Exec {
    pub trace: Vec<String>,
    pub enabled: Vec<Vec<String>>,
    /// cumulative preemption count after each step
    pub preempt: Vec<u32>,
    pub out: Value,
    pub divergence: Option<String>,
}

fn actor_of(label: &str) -> String {
    let a = label.split('/').next().unwrap_or("-");
    if a == "-" {
        // background tasks: compactor / vacuum are their own actors
        let name = label.split('/').nth(1).unwrap_or("");
        name.split('.').next().unwrap_or("-").to_string()
    } else {
        a.to_string()
    }
}

fn gate_name(label: &str) -> &str {
    label.split('/').nth(1).unwrap_or("")
}

type HandleSlot = Arc<Mutex<Option<tokio::runtime::Handle>>>;

/// The park callback needs the runtime's own handle (metrics): the slot that holds it forms a reference cycle
/// (runtime -> callback -> handle -> runtime) and MUST be cleared before the runtime is dropped, otherwise the I/O
/// driver (an epoll fd and an eventfd) of every execution leaks and the process runs out of descriptors after ~10 000.
fn build_rt(notify: Arc<tokio::sync::Notify>) -> (tokio::runtime::Runtime, HandleSlot) {
    let hslot: Arc<Mutex<Option<tokio::runtime::Handle>>> = Arc::new(Mutex::new(None));
    let hs = hslot.clone();
    let rt = tokio::runtime::Builder::new_current_thread()
        .enable_all()
        .start_paused(true)
        .on_thread_park(move || {
            let h = hs.lock().unwrap().clone();
            if let Some(h) = h {
                let m = h.metrics();
                let mut spins = 0u64;
                while m.num_blocking_threads() - m.num_idle_blocking_threads() > 0
                    || m.blocking_queue_depth() > 0
                {
                    std::thread::yield_now();
                    spins += 1;
                    if spins > 2_000_000_000 {
                        eprintln!("MACHINERY: blocking pool never became idle");
                        std::process::exit(3);
                    }
                }
                if m.global_queue_depth() == 0 {
                    QUIET.store(true, SeqCst);
                    notify.notify_one();
                }
            }
        })
        .build()
        .unwrap();
    *hslot.lock().unwrap() = Some(rt.handle().clone());
    (rt, hslot)
}

fn pending_labels() -> Vec<(u64, String)> {
    SCHED.with(|s| {
        s.borrow()
            .as_ref()
            .map(|s| s.pending.iter().map(|(k, v)| (*k, v.0.clone())).collect())
            .unwrap_or_default()
    })
}

fn release(ticket: u64) {
    let tx = SCHED.with(|s| s.borrow_mut().as_mut().unwrap().pending.remove(&ticket).unwrap().1);
    let _ = tx.send(());
}

/// Invariant of C08: every row-set of every pinned version still has its directory.
fn check_pins(db: &Database) -> Vec<String> {
    let mut bad = vec![];
    if let Some(st) = db.verif_secondary_storage() {
        let root = st.verif_path();
        for (epoch, cnt, rowsets) in st.verif_pinned_rowsets() {
            for (t, r) in rowsets {
                if !root.join(format!("{t}_{r}")).is_dir() {
                    bad.push(format!("epoch {epoch} (pinned x{cnt}) contains row-set {t}_{r} whose directory is gone"));
                }
            }
        }
    }
    bad
}

/// Reader liveness, tracked by the harness itself (NOT through the engine's pin counts, which a defect may get wrong):
/// when a read-only transaction is pending at `txn.pinned(t<id>,ro=true,..)` it has just pinned the latest version (no other
/// task ran in between), so the row-sets of table <id> in the latest snapshot are the ones it will read. Until the statement
/// of that actor is over, their directories must exist.
fn reader_table(label: &str) -> Option<u32> {
    let g = gate_name(label);
    let rest = g.strip_prefix("txn.pinned(t")?;
    if !rest.contains("ro=true") {
        return None;
    }
    rest.split(',').next()?.parse().ok()
}

fn latest_dirs(db: &Database, table: u32) -> Vec<std::path::PathBuf> {
    match db.verif_secondary_storage() {
        Some(st) => {
            let root = st.verif_path();
            st.verif_latest_rowsets().into_iter().filter(|(t, _)| *t == table).map(|(t, r)| root.join(format!("{t}_{r}"))).collect()
        }
        None => vec![],
    }
}

pub fn run_one(w: &Value, prefix: &[String]) -> Exec {
    let seed = w.get("_seed").and_then(|v| v.as_u64()).unwrap_or(0);
    let (w2, p2) = (w.clone(), prefix.to_vec());
    on_fresh_thread(seed, move || run_one_inner(&w2, &p2))
}

fn run_one_inner(w: &Value, prefix: &[String]) -> Exec {
    let notify = Arc::new(tokio::sync::Notify::new());
    let (rt, handle_slot) = build_rt(notify.clone());
    let dir = fresh_dir("e4");
    let _ = std::fs::remove_dir_all(&dir);
    let opts = w.get("opts").cloned().unwrap_or(json!({"block": 64, "rowset": 1 << 20}));
    let passes_max = w.get("passes").and_then(|v| v.as_u64()).unwrap_or(1) as usize;
    let want_pins = w.get("check_pins").and_then(|v| v.as_bool()).unwrap_or(false);
    let tables: Vec<String> = w.get("tables").and_then(|v| v.as_array()).map(|a| a.iter().filter_map(|x| x.as_str().map(|s| s.to_string())).collect()).unwrap_or_default();
    let actors: Vec<(String, Vec<String>)> = w["actors"].as_array().unwrap().iter().map(|a| {
        (a["name"].as_str().unwrap().to_string(), a["stmts"].as_array().unwrap().iter().map(|s| s.as_str().unwrap().to_string()).collect())
    }).collect();
    let transparent: Vec<String> = w.get("transparent").and_then(|v| v.as_array()).map(|a| a.iter().filter_map(|x| x.as_str().map(|s| s.to_string())).collect()).unwrap_or_default();
    let _ = take_panics();
    let exec = rt.block_on(async {
        let mut divergence = None;
        // ---- setup (unarmed)
        // ("engine": "mem": the memory engine — no compactor, nothing to reopen; the gates are those of Database::run)
        let in_memory = w.get("engine").and_then(|v| v.as_str()) == Some("mem");
        let db = Arc::new(if in_memory { Database::new_in_memory() } else { Database::new_on_disk(disk_opts(&dir, &opts)).await });
        let mut setup_res = vec![];
        for s in w["setup"].as_array().unwrap() {
            setup_res.push(run_stmt(&db, s.as_str().unwrap()).await);
        }
        // ---- arm
        SCHED.with(|s| *s.borrow_mut() = Some(Sched::default()));
        let quiesce = || async {
            loop {
                QUIET.store(false, SeqCst);
                notify.notified().await;
                if QUIET.load(SeqCst) {
                    break;
                }
            }
        };
        let mut handles = vec![];
        for (name, stmts) in actors.clone() {
            let db2 = db.clone();
            let fut = async move {
                let mut res = vec![];
                for s in stmts {
                    res.push(run_stmt_opt(&db2, &s, false).await);
                }
                res
            };
            handles.push((name.clone(), tokio::spawn(ACTOR.scope(name, fut))));
        }
        let mut trace: Vec<String> = vec![];
        let mut enabled_log: Vec<Vec<String>> = vec![];
        let mut preempt: Vec<u32> = vec![];
        let mut pre = 0u32;
        let mut passes = 0usize;
        let mut step = 0usize;
        let mut last_actor: Option<String> = None;
        let mut inv: Vec<Value> = vec![];
        let mut deadlock = false;
        let mut readers: BTreeMap<String, Vec<std::path::PathBuf>> = BTreeMap::new();
        loop {
            quiesce().await;
            if want_pins {
                for b in check_pins(&db) {
                    inv.push(json!({"step": step, "what": b}));
                }
            }
            let pending = pending_labels();
            if want_pins {
                // a reader that has just pinned: remember what it will read
                for (_, l) in &pending {
                    if let Some(t) = reader_table(l) {
                        readers.entry(actor_of(l)).or_insert_with(|| latest_dirs(&db, t));
                    }
                }
                // a reader whose statement is over (its actor is finished or starts its next statement) needs nothing any more
                let over: Vec<String> = readers
                    .keys()
                    .filter(|a| {
                        handles.iter().any(|(n, h)| n == *a && h.is_finished())
                            || pending.iter().any(|(_, l)| &actor_of(l) == *a && gate_name(l) == "run.begin")
                    })
                    .cloned()
                    .collect();
                for a in over {
                    readers.remove(&a);
                }
                for (a, dirs) in &readers {
                    for d in dirs {
                        if !d.is_dir() {
                            inv.push(json!({"step": step, "what": format!("reader {a} is still running but the directory {} of a row-set of its snapshot is gone", d.file_name().unwrap().to_string_lossy())}));
                        }
                    }
                }
            }
            let pending = pending;
            // transparent gates: released at once, never a choice (the workload says which gate names matter)
            if let Some((t, _)) = pending.iter().find(|p| transparent.iter().any(|x| gate_name(&p.1).starts_with(x.as_str()))) {
                release(*t);
                continue;
            }
            let compactor_pending = pending.iter().any(|p| actor_of(&p.1) == "compactor");
            if !compactor_pending && passes < passes_max {
                // timer as a normalised environment action: wake the sleeping compactor now
                passes += 1;
                tokio::time::advance(std::time::Duration::from_millis(1001)).await;
                continue;
            }
            // enabled = distinct labels, horizon: the pass gate beyond K passes is never released
            let mut names: Vec<String> = vec![];
            let released_passes = trace.iter().filter(|t| gate_name(t) == "compactor.pass").count();
            for (_, l) in &pending {
                if gate_name(l) == "compactor.pass" && released_passes >= passes_max {
                    continue;
                }
                if !names.contains(l) {
                    names.push(l.clone());
                }
            }
            names.sort();
            if names.is_empty() {
                let unfinished = handles.iter().filter(|(_, h)| !h.is_finished()).count();
                deadlock = unfinished > 0;
                break;
            }
            // canonical order: last actor's gates first
            let mut choices: Vec<String> = vec![];
            if let Some(la) = &last_actor {
                choices.extend(names.iter().filter(|n| &actor_of(n) == la).cloned());
            }
            for n in &names {
                if !choices.contains(n) {
                    choices.push(n.clone());
                }
            }
            let pick = if step < prefix.len() {
                if !choices.contains(&prefix[step]) {
                    divergence = Some(format!("step {step}: want {} have {:?}", prefix[step], choices));
                    break;
                }
                prefix[step].clone()
            } else {
                choices[0].clone()
            };
            let pa = actor_of(&pick);
            if let Some(la) = &last_actor {
                if *la != pa && names.iter().any(|n| &actor_of(n) == la) {
                    pre += 1;
                }
            }
            enabled_log.push(choices);
            preempt.push(pre);
            let ticket = pending.iter().filter(|p| p.1 == pick).map(|p| p.0).min().unwrap();
            release(ticket);
            trace.push(pick);
            last_actor = Some(pa);
            step += 1;
            if step > 5000 {
                divergence = Some("step limit".into());
                break;
            }
        }
        // ---- collect actor results
        let mut stmts = BTreeMap::new();
        for (name, h) in handles {
            if h.is_finished() {
                match h.await {
                    Ok(r) => {
                        stmts.insert(name, json!(r));
                    }
                    Err(e) => {
                        stmts.insert(name, json!({"actor_panic": e.to_string()}));
                    }
                }
            } else {
                h.abort();
                stmts.insert(name, json!("UNFINISHED"));
            }
        }
        // ---- disarm (drops pending senders -> releases remaining gates), final observations
        SCHED.with(|s| *s.borrow_mut() = None);
        let bg_panics = take_panics();
        let mut fin = BTreeMap::new();
        for t in &tables {
            fin.insert(t.clone(), run_stmt(&db, &format!("select * from {t}")).await);
        }
        let shutdown_ok = match std::panic::AssertUnwindSafe(db.shutdown()).catch_unwind().await {
            Ok(Ok(())) => json!("ok"),
            Ok(Err(e)) => err_json(&e),
            Err(e) => json!({"panic": panic_msg(e)}),
        };
        drop(db);
        tokio::task::yield_now().await;
        let mut reopen = BTreeMap::new();
        let mut reopen_ok = json!("ok");
        let do_reopen = w.get("reopen").and_then(|v| v.as_bool()).unwrap_or(true) && !in_memory;
        if do_reopen { match std::panic::AssertUnwindSafe(Database::new_on_disk(disk_opts(&dir, &opts))).catch_unwind().await {
            Ok(db2) => {
                for t in &tables {
                    reopen.insert(t.clone(), run_stmt(&db2, &format!("select * from {t}")).await);
                }
                let _ = std::panic::AssertUnwindSafe(db2.shutdown()).catch_unwind().await;
            }
            Err(e) => reopen_ok = json!({"open_panic": panic_msg(e)}),
        } }
        let out = json!({
            "setup_ok": setup_res.iter().all(|r| r.get("rows").is_some() && r.get("task_panics").is_none()),
            "stmts": stmts, "final": fin, "shutdown": shutdown_ok, "reopen_open": reopen_ok, "reopen": reopen,
            "bg_panics": bg_panics, "inv": inv, "deadlock": deadlock, "passes": passes,
        });
        Exec { trace, enabled: enabled_log, preempt, out, divergence }
    });
    *handle_slot.lock().unwrap() = None;
    drop(rt);
    let _ = std::fs::remove_dir_all(&dir);
    let _ = take_panics();
    exec
}

/// Explore one workload; prints one JSON line per execution and a summary. Returns false on divergence.
pub fn explore(w: &Value, out: &mut impl Write) -> bool {
    let bound = w.get("bound").and_then(|v| v.as_u64()).unwrap_or(2) as u32;
    let max_execs = w.get("max_execs").and_then(|v| v.as_u64()).unwrap_or(20000) as usize;
    let name = w["name"].clone();
    // replay determinism: the default schedule twice
    let e0 = run_one(w, &[]);
    let e1 = run_one(w, &e0.trace);
    let mut ok = true;
    if e0.divergence.is_some() || e1.divergence.is_some() || e0.trace != e1.trace || e0.out != e1.out {
        let _ = writeln!(out, "{}", json!({"w": name, "machinery": "replay of the default schedule diverged", "a": e0.trace, "b": e1.trace,
            "da": e0.divergence, "db": e1.divergence, "oa": e0.out, "ob": e1.out}));
        return false;
    }
    // optional sharding of one workload's schedule tree: the children of the root execution are dealt round-robin
    let (shard_i, shard_n) = w.get("shard").and_then(|v| v.as_array()).map(|a| (a[0].as_u64().unwrap() as usize, a[1].as_u64().unwrap() as usize)).unwrap_or((0, 1));
    let mut stack: Vec<Vec<String>> = vec![vec![]];
    let (mut n, mut steps, mut capped) = (0usize, 0usize, false);
    let mut retried = 0usize;
    let mut max_pre = 0u32;
    while let Some(prefix) = stack.pop() {
        let mut e = run_one(w, &prefix);
        // A prefix recorded by the parent execution must be replayable. A divergence is a hard machinery error, but the
        // execution is retried first: under extreme machine load a single run can be perturbed (observed once with
        // concurrent compiler jobs saturating the box); a real loss of determinism reproduces on every attempt.
        let mut attempts = 1;
        while e.divergence.is_some() && attempts < 3 {
            e = run_one(w, &prefix);
            attempts += 1;
            retried += 1;
        }
        n += 1;
        steps += e.trace.len();
        if let Some(d) = &e.divergence {
            let _ = writeln!(out, "{}", json!({"w": name, "machinery": format!("divergence: {d}"), "prefix": prefix}));
            ok = false;
            break;
        }
        let total_pre = e.preempt.last().copied().unwrap_or(0);
        max_pre = max_pre.max(total_pre);
        let is_root = prefix.is_empty();
        if !(is_root && shard_i != 0) {
            let _ = writeln!(out, "{}", json!({"w": name, "trace": e.trace, "pre": total_pre, "out": e.out}));
        } else {
            n -= 1;
            steps -= e.trace.len();
        }
        let mut child_idx = 0usize;
        for i in prefix.len()..e.trace.len() {
            let before = if i == 0 { 0 } else { e.preempt[i - 1] };
            let last_actor = if i == 0 { None } else { Some(actor_of(&e.trace[i - 1])) };
            for alt in &e.enabled[i] {
                if *alt == e.trace[i] {
                    continue;
                }
                let mut cost = before;
                if let Some(la) = &last_actor {
                    if actor_of(alt) != *la && e.enabled[i].iter().any(|x| actor_of(x) == *la) {
                        cost += 1;
                    }
                }
                if cost > bound {
                    continue;
                }
                let mut p = e.trace[..i].to_vec();
                p.push(alt.clone());
                if is_root {
                    child_idx += 1;
                    if (child_idx - 1) % shard_n != shard_i {
                        continue;
                    }
                }
                stack.push(p);
            }
        }
        if n >= max_execs {
            capped = !stack.is_empty();
            break;
        }
    }
    let _ = writeln!(out, "{}", json!({"w": name, "summary": {"schedules": n, "steps": steps, "bound": bound, "capped": capped, "max_preemptions_seen": max_pre, "divergence_retries": retried}}));
    ok
}

pub fn main(args: &[String]) -> i32 {
    // --replay: a single workload + schedule from a file {"workload":..., "trace":[...]}
    if args.first().map(|s| s.as_str()) == Some("--replay") {
        let v: Value = serde_json::from_str(&std::fs::read_to_string(&args[1]).unwrap()).unwrap();
        let tr: Vec<String> = v["trace"].as_array().unwrap().iter().map(|x| x.as_str().unwrap().to_string()).collect();
        let e = run_one(&v["workload"], &tr);
        println!("{}", json!({"trace": e.trace, "out": e.out, "divergence": e.divergence}));
        return 0;
    }
    let stdin = std::io::stdin();
    let stdout = std::io::stdout();
    let mut code = 0;
    for line in stdin.lock().lines() {
        let Ok(line) = line else { break };
        if line.trim().is_empty() {
            continue;
        }
        let w: Value = serde_json::from_str(&line).unwrap();
        let mut o = stdout.lock();
        if !explore(&w, &mut o) {
            code = 3;
        }
        let _ = o.flush();
    }
    code
}
