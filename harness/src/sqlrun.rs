//! `rlv sql`: generic script runner. Reads JSON lines (one script per line) on stdin, executes each
//! on a fresh current-thread tokio runtime with a paused clock, writes one JSON line per script.
//!
//! script = {"id": str, "engine": "mem"|"disk", "opts": {...}, "dir": str?, "keep": bool?,
//!           "steps": [ {"sql": "..."} | {"op": "reopen"|"compact"|"shutdown"|"open"|"ls"} ]}
//! result = {"id": str, "results": [ {"cols":[..],"rows":[..]} | {"err":kind,"msg":..} | {"panic":msg} | {"ok":true} ... ], "dir": str?}
use std::io::{BufRead, Write};
use std::sync::Arc;

use futures::FutureExt;
use risinglight::Database;
use serde_json::{Value, json};

use crate::util::*;

pub fn paused_rt() -> tokio::runtime::Runtime {
    tokio::runtime::Builder::new_current_thread()
        .enable_all()
        .start_paused(true)
        .build()
        .unwrap()
}

/// Let the background compactor run exactly one pass (its timer is 1 s; the clock is paused, so
/// sleeping 1.1 s while otherwise idle auto-advances to its timer, and auto-advance is inhibited
/// while its file I/O is in flight, so the pass completes before we resume).
pub async fn compact_now() {
    tokio::time::sleep(std::time::Duration::from_millis(1100)).await;
}

pub async fn open_db(engine: &str, dir: &str, opts: &Value) -> Result<Database, String> {
    if engine == "mem" {
        return Ok(Database::new_in_memory());
    }
    let o = disk_opts(dir, opts);
    match std::panic::AssertUnwindSafe(Database::new_on_disk(o)).catch_unwind().await {
        Ok(db) => Ok(db),
        Err(e) => Err(panic_msg(e)),
    }
}

pub async fn run_stmt(db: &Database, sql: &str) -> Value {
    run_stmt_opt(db, sql, true).await
}

/// `attach_panics`: drain the global panic log and attach it to an Ok result (single-session runners);
/// the concurrent engines pass false and collect all panics at the end of the execution.
pub async fn run_stmt_opt(db: &Database, sql: &str, attach_panics: bool) -> Value {
    let r = std::panic::AssertUnwindSafe(db.run(sql)).catch_unwind().await;
    let task_panics = if attach_panics { take_panics() } else { vec![] };
    match r {
        Ok(Ok(chunks)) => {
            let mut v = chunks_json(&chunks);
            if !task_panics.is_empty() {
                // the statement returned Ok although an operator task panicked
                v["task_panics"] = json!(task_panics);
            }
            v
        }
        Ok(Err(e)) => err_json(&e),
        Err(e) => json!({"panic": panic_msg(e)}),
    }
}

pub fn ls(dir: &str) -> Value {
    let mut out = vec![];
    fn walk(base: &std::path::Path, p: &std::path::Path, out: &mut Vec<(String, u64)>) {
        if let Ok(rd) = std::fs::read_dir(p) {
            for e in rd.flatten() {
                let path = e.path();
                if path.is_dir() {
                    out.push((format!("{}/", path.strip_prefix(base).unwrap().display()), 0));
                    walk(base, &path, out);
                } else {
                    let len = e.metadata().map(|m| m.len()).unwrap_or(0);
                    out.push((path.strip_prefix(base).unwrap().display().to_string(), len));
                }
            }
        }
    }
    walk(std::path::Path::new(dir), std::path::Path::new(dir), &mut out);
    out.sort();
    json!(out)
}

pub fn run_script(script: &Value) -> Value {
    let id = script["id"].clone();
    let engine = script["engine"].as_str().unwrap_or("mem").to_string();
    let opts = script.get("opts").cloned().unwrap_or(json!({}));
    let given_dir = script.get("dir").and_then(|v| v.as_str()).map(|s| s.to_string());
    let keep = script.get("keep").and_then(|v| v.as_bool()).unwrap_or(false);
    let dir = given_dir.clone().unwrap_or_else(|| fresh_dir("sql"));
    if engine == "disk" && given_dir.is_none() {
        let _ = std::fs::remove_dir_all(&dir);
    }
    let steps = script["steps"].as_array().cloned().unwrap_or_default();
    let no_autoopen = script.get("no_autoopen").and_then(|v| v.as_bool()).unwrap_or(false);
    let rt = paused_rt();
    let results: Vec<Value> = rt.block_on(async {
        let mut results = vec![];
        let mut db: Option<Arc<Database>> = None;
        let mut dead = false;
        if !no_autoopen {
            match open_db(&engine, &dir, &opts).await {
                Ok(d) => db = Some(Arc::new(d)),
                Err(p) => {
                    results.push(json!({"open_panic": p}));
                    dead = true;
                }
            }
        }
        for st in &steps {
            if dead {
                results.push(json!({"skipped": true}));
                continue;
            }
            if let Some(sql) = st.get("sql").and_then(|v| v.as_str()) {
                match &db {
                    Some(d) => results.push(run_stmt(d, sql).await),
                    None => results.push(json!({"skipped": "closed"})),
                }
                continue;
            }
            match st.get("op").and_then(|v| v.as_str()).unwrap_or("") {
                "compact" => {
                    compact_now().await;
                    let p = take_panics();
                    results.push(if p.is_empty() { json!({"ok": true}) } else { json!({"ok": true, "task_panics": p}) });
                }
                "shutdown" | "reopen" | "open" => {
                    let op = st["op"].as_str().unwrap();
                    let mut res = json!({"ok": true});
                    if op != "open" {
                        if let Some(d) = db.take() {
                            let r = std::panic::AssertUnwindSafe(d.shutdown()).catch_unwind().await;
                            match r {
                                Ok(Ok(())) => {}
                                Ok(Err(e)) => res = err_json(&e),
                                Err(e) => res = json!({"panic": format!("shutdown: {}", panic_msg(e))}),
                            }
                            drop(d);
                            // let aborted/finished tasks settle
                            tokio::task::yield_now().await;
                        }
                    }
                    if op != "shutdown" && engine == "disk" {
                        match open_db(&engine, &dir, &opts).await {
                            Ok(d) => db = Some(Arc::new(d)),
                            Err(p) => {
                                res = json!({"open_panic": p});
                                dead = true;
                            }
                        }
                    } else if op != "shutdown" {
                        // memory engine: reopen is meaningless; keep the instance
                        res = json!({"ok": true, "noop": true});
                    }
                    let p = take_panics();
                    if !p.is_empty() && res.get("ok").is_some() {
                        res["task_panics"] = json!(p);
                    }
                    results.push(res);
                }
                "ls" => results.push(json!({"ls": ls(&dir)})),
                other => results.push(json!({"bad_op": other})),
            }
        }
        if let Some(d) = db.take() {
            if engine == "disk" {
                let _ = std::panic::AssertUnwindSafe(d.shutdown()).catch_unwind().await;
            }
        }
        results
    });
    drop(rt);
    let _ = take_panics();
    let mut out = json!({"id": id, "results": results});
    if engine == "disk" {
        if keep {
            out["dir"] = json!(dir);
        } else {
            let _ = std::fs::remove_dir_all(&dir);
        }
    }
    out
}

pub fn main(_args: &[String]) -> i32 {
    let stdin = std::io::stdin();
    let stdout = std::io::stdout();
    for line in stdin.lock().lines() {
        let Ok(line) = line else { break };
        if line.trim().is_empty() {
            continue;
        }
        let script: Value = match serde_json::from_str(&line) {
            Ok(v) => v,
            Err(e) => {
                eprintln!("bad script: {e}");
                return 2;
            }
        };
        let seed = script.get("_seed").and_then(|v| v.as_u64()).unwrap_or(0);
        let out = on_fresh_thread(seed, move || run_script(&script));
        let mut o = stdout.lock();
        let _ = writeln!(o, "{}", out);
        let _ = o.flush();
    }
    0
}
