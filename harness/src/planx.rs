//! `rlv plan` — plan-level checks for C17 (every accepted query is planned into an executable plan) and C16(a)
//! (runtime column types == statically derived types).
//!
//! job = {"id", "engine": "mem"|"disk", "opts", "setup": [sql..], "stats": {table: rows}?, "stmts": [sql..]}
//! For every statement: parse, bind; if bound: optimize (timed, catch_unwind), static well-formedness walk of the
//! optimized plan, static output types of bound and optimized plan, executor::build (catch_unwind), run, runtime types.
//! One JSON line per job: {"id", "setup_ok", "results": [...]}
use std::io::{BufRead, Write};
use std::sync::Arc;

use egg::{Id, Language};
use futures::{FutureExt, TryStreamExt};
use risinglight::binder::Binder;
use risinglight::catalog::RootCatalogRef;
use risinglight::parser::parse;
use risinglight::planner::{Config, Expr, Optimizer, RecExpr, Statistics, TypeSchemaAnalysis};
use risinglight::storage::{InMemoryStorage, SecondaryStorage, Storage};
use serde_json::{Value, json};

use crate::sqlrun::paused_rt;
use crate::util::*;

type TEGraph = egg::EGraph<Expr, TypeSchemaAnalysis>;

fn is_plan(e: &Expr) -> bool {
    use Expr::*;
    matches!(
        e,
        Scan(_) | IndexScan(_) | Values(_) | Proj(_) | Filter(_) | Order(_) | Limit(_) | TopN(_) | Join(_) | HashJoin(_) | MergeJoin(_)
            | Apply(_) | Agg(_) | HashAgg(_) | SortAgg(_) | Window(_) | Empty(_) | Insert(_) | Delete(_) | CopyFrom(_) | CopyTo(_)
            | Explain(_) | Analyze(_) | CreateTable(_) | CreateView(_) | CreateIndex(_) | CreateFunction(_) | Drop(_)
    )
}

/// Does expression `e` (with children resolved in `g`) resolve against `schema` the way the executor resolves it?
fn check_refs(g: &TEGraph, e: Id, schema: &[Id], what: &str, out: &mut Vec<String>, depth: usize) {
    if depth > 64 {
        return;
    }
    if schema.iter().any(|s| *s == e) {
        return;
    }
    let node = &g[e].nodes[0];
    match node {
        Expr::Column(c) => out.push(format!("{what}: column {c} is not produced by the input")),
        Expr::Exists(_) | Expr::In(_) if false => {}
        n if is_plan(n) => out.push(format!("{what}: expression contains an unresolved sub-plan `{}`", n)),
        Expr::Exists(_) => out.push(format!("{what}: unresolved EXISTS subquery")),
        Expr::In([_, b]) if is_plan(&g[*b].nodes[0]) => out.push(format!("{what}: unresolved IN subquery")),
        n => {
            for c in n.children() {
                check_refs(g, *c, schema, what, out, depth + 1);
            }
        }
    }
}

fn schema_of(g: &TEGraph, id: Id) -> Vec<Id> {
    g[id].data.schema.clone()
}

fn is_true(g: &TEGraph, id: Id) -> bool {
    g[id].nodes[0] == Expr::true_()
}

fn list_len(g: &TEGraph, id: Id) -> Option<usize> {
    match &g[id].nodes[0] {
        Expr::List(l) => Some(l.len()),
        _ => None,
    }
}

/// Static well-formedness of an optimized plan (what the executor requires).
fn wellformed(g: &TEGraph, id: Id, out: &mut Vec<String>, depth: usize) {
    use Expr::*;
    if depth > 64 {
        return;
    }
    let node = g[id].nodes[0].clone();
    let two = |l: Id, r: Id| -> Vec<Id> { schema_of(g, l).into_iter().chain(schema_of(g, r)).collect() };
    match &node {
        Scan([_, _cols, _filter]) => {}
        Values(_) | Empty(_) => {}
        Proj([e, c]) | Filter([e, c]) | Order([e, c]) | Agg([e, c]) | Window([e, c]) => {
            check_refs(g, *e, &schema_of(g, *c), &node.to_string(), out, 0);
            wellformed(g, *c, out, depth + 1);
        }
        Limit([l, o, c]) => {
            for x in [l, o] {
                if !matches!(g[*x].nodes[0], Constant(_)) {
                    out.push("limit/offset is not a constant".into());
                }
            }
            wellformed(g, *c, out, depth + 1);
        }
        TopN([l, o, k, c]) => {
            for x in [l, o] {
                if !matches!(g[*x].nodes[0], Constant(_)) {
                    out.push("topn limit/offset is not a constant".into());
                }
            }
            check_refs(g, *k, &schema_of(g, *c), "topn keys", out, 0);
            wellformed(g, *c, out, depth + 1);
        }
        HashAgg([k, a, c]) | SortAgg([k, a, c]) => {
            check_refs(g, *k, &schema_of(g, *c), "agg keys", out, 0);
            check_refs(g, *a, &schema_of(g, *c), "aggs", out, 0);
            wellformed(g, *c, out, depth + 1);
        }
        Join([t, on, l, r]) => {
            if !matches!(g[*t].nodes[0], Inner | LeftOuter | RightOuter | FullOuter | Semi | Anti) {
                out.push("join: invalid join type".into());
            }
            check_refs(g, *on, &two(*l, *r), "join condition", out, 0);
            wellformed(g, *l, out, depth + 1);
            wellformed(g, *r, out, depth + 1);
        }
        HashJoin([t, cond, lk, rk, l, r]) | MergeJoin([t, cond, lk, rk, l, r]) => {
            let merge = matches!(node, MergeJoin(_));
            let ty = g[*t].nodes[0].clone();
            if merge && !matches!(ty, Inner | LeftOuter | RightOuter | FullOuter) {
                out.push(format!("mergejoin: join type {ty} is not implemented by the executor"));
            }
            if list_len(g, *lk) != list_len(g, *rk) {
                out.push("hash/merge join: |lkeys| != |rkeys|".into());
            }
            if !is_true(g, *cond) && (merge || !matches!(ty, Semi | Anti)) {
                out.push("hash/merge join: residual condition is not `true` where the executor asserts it".into());
            }
            check_refs(g, *lk, &schema_of(g, *l), "join left keys", out, 0);
            check_refs(g, *rk, &schema_of(g, *r), "join right keys", out, 0);
            if !is_true(g, *cond) {
                check_refs(g, *cond, &two(*l, *r), "join residual", out, 0);
            }
            wellformed(g, *l, out, depth + 1);
            wellformed(g, *r, out, depth + 1);
        }
        Apply(_) => out.push("plan contains `apply` (the executor cannot run it)".into()),
        IndexScan(_) => {}
        Insert([_, _, c]) | Delete([_, c]) | CopyTo([_, c]) => wellformed(g, *c, out, depth + 1),
        Explain(_) | Analyze(_) | CopyFrom(_) | CreateTable(_) | CreateView(_) | CreateIndex(_) | CreateFunction(_) | Drop(_) => {}
        other => out.push(format!("not a plan node at plan position: {other}")),
    }
}

fn static_types(catalog: &RootCatalogRef, plan: &RecExpr) -> Result<Vec<String>, String> {
    let mut g = TEGraph::new(TypeSchemaAnalysis { catalog: catalog.clone() });
    let root = g.add_expr(plan);
    match &g[root].data.type_ {
        Ok(t) => Ok(t.as_struct().iter().map(kind_of).collect()),
        Err(e) => Err(format!("{e:?}")),
    }
}

/// The array variant name that a column of this static type must have at run time.
fn kind_of(t: &risinglight::types::DataType) -> String {
    use risinglight::types::DataType::*;
    match t {
        Null => "NULL",
        Bool => "Bool",
        Int16 => "Int16",
        Int32 => "Int32",
        Int64 => "Int64",
        Float64 => "Float64",
        Decimal(_, _) => "Decimal",
        Date => "Date",
        Timestamp => "Timestamp",
        TimestampTz => "TimestampTz",
        Interval => "Interval",
        String => "String",
        Blob => "Blob",
        Struct(_) => "Struct",
        Vector(_) => "Vector",
    }
    .to_string()
}

fn runtime_kind(s: &str) -> &str {
    s
}

async fn one_stmt<S: Storage>(catalog: &RootCatalogRef, storage: &Arc<S>, stat: &Statistics, config: &Config, sql: &str, execute: bool) -> Value {
    // panics caught (and reported as such) while handling the previous statement are not this statement's
    let _ = take_panics();
    let stmts = match parse(sql) {
        Ok(s) => s,
        Err(e) => return json!({"parse_err": e.to_string()}),
    };
    let Some(stmt) = stmts.into_iter().next() else { return json!({"parse_err": "empty"}) };
    let mut binder = Binder::new(catalog.clone());
    let bound = match std::panic::catch_unwind(std::panic::AssertUnwindSafe(|| binder.bind(stmt))) {
        Ok(Ok(p)) => p,
        Ok(Err(e)) => return json!({"bind_err": e.to_string().lines().next().unwrap_or("").to_string()}),
        Err(e) => return json!({"bind_panic": panic_msg(e)}),
    };
    let optimizer = Optimizer::new(catalog.clone(), stat.clone(), config.clone());
    let t0 = std::time::Instant::now();
    let optimized = match std::panic::catch_unwind(std::panic::AssertUnwindSafe(|| optimizer.optimize(bound.clone()))) {
        Ok(p) => p,
        Err(e) => return json!({"bound": true, "optimize_panic": panic_msg(e).lines().next().unwrap_or("").to_string()}),
    };
    let opt_ms = t0.elapsed().as_millis() as u64;
    let mut out = json!({"bound": true, "opt_ms": opt_ms});
    // static checks
    let mut g = TEGraph::new(TypeSchemaAnalysis { catalog: catalog.clone() });
    let root = g.add_expr(&optimized);
    let mut wf = vec![];
    wellformed(&g, root, &mut wf, 0);
    wf.sort();
    wf.dedup();
    out["wf"] = json!(wf);
    let st_bound = static_types(catalog, &bound);
    let st_opt = static_types(catalog, &optimized);
    out["static_bound"] = json!(st_bound.clone().unwrap_or_else(|e| vec![format!("ERR {e}")]));
    out["static_opt"] = json!(st_opt.clone().unwrap_or_else(|e| vec![format!("ERR {e}")]));
    if !execute {
        return out;
    }
    // build + run
    let built = std::panic::catch_unwind(std::panic::AssertUnwindSafe(|| risinglight::executor::build(optimizer.clone(), storage.clone(), &optimized)));
    let exec = match built {
        Ok(e) => e,
        Err(e) => {
            out["build_panic"] = json!(panic_msg(e).lines().next().unwrap_or("").to_string());
            return out;
        }
    };
    let r = std::panic::AssertUnwindSafe(exec.try_collect::<Vec<_>>()).catch_unwind().await;
    // let the operator tasks that are still running finish (paused clock: the sleep returns once the runtime is
    // otherwise idle), so that a late panic is attributed to this statement and not to the next one
    tokio::time::sleep(std::time::Duration::from_millis(1)).await;
    let panics = take_panics();
    match r {
        Ok(Ok(chunks)) => {
            let mut kinds: Vec<Vec<String>> = vec![];
            let mut rows = 0usize;
            let mut widths = std::collections::BTreeSet::new();
            for c in &chunks {
                rows += c.cardinality();
                widths.insert(c.column_count());
                let k: Vec<String> = c.arrays().iter().map(|a| runtime_kind(a.type_string()).to_string()).collect();
                if !kinds.contains(&k) {
                    kinds.push(k);
                }
            }
            out["run"] = json!({"rows": rows, "kinds": kinds, "widths": widths.into_iter().collect::<Vec<_>>()});
            if !panics.is_empty() {
                out["task_panics"] = json!(panics);
            }
        }
        Ok(Err(e)) => {
            out["run_err"] = json!(e.to_string().lines().next().unwrap_or("").to_string());
            if !panics.is_empty() {
                out["task_panics"] = json!(panics);
            }
        }
        Err(e) => out["run_panic"] = json!(panic_msg(e).lines().next().unwrap_or("").to_string()),
    }
    out
}

/// Run one setup statement through the mini pipeline (used by other engines).
pub async fn one_stmt_pub<S: Storage>(catalog: &RootCatalogRef, storage: &Arc<S>, stat: &Statistics, config: &Config, sql: &str) -> Value {
    one_stmt(catalog, storage, stat, config, sql, true).await
}

async fn run_job_with<S: Storage>(job: &Value, catalog: RootCatalogRef, storage: Arc<S>, config: Config) -> Value {
    let mut stat = Statistics::default();
    let mut setup_ok = true;
    for s in job["setup"].as_array().unwrap() {
        let r = one_stmt(&catalog, &storage, &stat, &config, s.as_str().unwrap(), true).await;
        if r.get("run").is_none() {
            setup_ok = false;
        }
    }
    if let Some(m) = job.get("stats").and_then(|v| v.as_object()) {
        for (t, n) in m {
            if let Some(id) = catalog.get_table_id_by_name("postgres", t) {
                stat.add_row_count(id, n.as_u64().unwrap_or(1) as u32);
            }
        }
    }
    let execute = job.get("execute").and_then(|v| v.as_bool()).unwrap_or(true);
    let mut results = vec![];
    for s in job["stmts"].as_array().unwrap() {
        results.push(one_stmt(&catalog, &storage, &stat, &config, s.as_str().unwrap(), execute).await);
    }
    json!({"id": job["id"], "setup_ok": setup_ok, "results": results})
}

pub fn run_job(job: &Value) -> Value {
    let rt = paused_rt();
    let engine = job["engine"].as_str().unwrap_or("mem").to_string();
    let out = rt.block_on(async {
        if engine == "mem" {
            let storage = Arc::new(InMemoryStorage::new());
            let catalog = storage.catalog().clone();
            run_job_with(job, catalog, storage, Config { enable_range_filter_scan: false, table_is_sorted_by_primary_key: false }).await
        } else {
            let dir = fresh_dir("plan");
            let _ = std::fs::remove_dir_all(&dir);
            let opts = job.get("opts").cloned().unwrap_or(json!({}));
            let storage = Arc::new(SecondaryStorage::open(disk_opts(&dir, &opts)).await.unwrap());
            storage.spawn_compactor().await;
            let catalog = storage.catalog().clone();
            let r = run_job_with(job, catalog, storage.clone(), Config { enable_range_filter_scan: true, table_is_sorted_by_primary_key: true }).await;
            let _ = std::panic::AssertUnwindSafe(storage.shutdown()).catch_unwind().await;
            let _ = std::fs::remove_dir_all(&dir);
            r
        }
    });
    drop(rt);
    let _ = take_panics();
    out
}

pub fn main(_args: &[String]) -> i32 {
    let stdin = std::io::stdin();
    let stdout = std::io::stdout();
    for line in stdin.lock().lines() {
        let Ok(line) = line else { break };
        if line.trim().is_empty() {
            continue;
        }
        let job: Value = serde_json::from_str(&line).unwrap();
        let seed = job.get("_seed").and_then(|v| v.as_u64()).unwrap_or(0);
        let out = on_fresh_thread(seed, move || run_job(&job));
        let mut o = stdout.lock();
        let _ = writeln!(o, "{}", out);
        let _ = o.flush();
    }
    0
}
