use std::cell::RefCell;
use std::sync::atomic::{AtomicU64, Ordering};

use risinglight::array::{ArrayImpl, Chunk};
use risinglight::storage::SecondaryStorageOptions;
use serde_json::{Value, json};

thread_local! {
    /// Last panic message seen on this thread (set by the panic hook).
    pub static LAST_PANIC: RefCell<Option<String>> = const { RefCell::new(None) };
}
/// Panic messages from any thread, most recent last (operator tasks run on the runtime thread, but
/// blocking-pool threads may panic too).
pub static PANICS: std::sync::Mutex<Vec<String>> = std::sync::Mutex::new(Vec::new());

pub fn install_quiet_panic_hook() {
    std::panic::set_hook(Box::new(|info| {
        let s = info.to_string();
        let s: String = s.chars().take(400).collect();
        if std::env::var_os("RLV_SHOW_PANICS").is_some() {
            eprintln!("[panic] {s}");
        }
        LAST_PANIC.with(|p| *p.borrow_mut() = Some(s.clone()));
        if let Ok(mut g) = PANICS.lock() {
            g.push(s);
        }
    }));
}

pub fn take_panics() -> Vec<String> {
    PANICS.lock().map(|mut g| std::mem::take(&mut *g)).unwrap_or_default()
}

pub fn panic_msg(e: Box<dyn std::any::Any + Send>) -> String {
    if let Some(s) = e.downcast_ref::<&str>() {
        s.to_string()
    } else if let Some(s) = e.downcast_ref::<String>() {
        s.clone()
    } else {
        LAST_PANIC.with(|p| p.borrow().clone()).unwrap_or_else(|| "panic".into())
    }
}

static DIR_SEQ: AtomicU64 = AtomicU64::new(0);

/// A fresh scratch directory path in tmpfs (not created).
pub fn fresh_dir(tag: &str) -> String {
    let n = DIR_SEQ.fetch_add(1, Ordering::SeqCst);
    let base = std::env::var("RLV_SCRATCH").unwrap_or_else(|_| "/dev/shm".into());
    format!("{base}/rlv-{}-{tag}-{n}", std::process::id())
}

/// Disk options from a JSON object: {block, rowset, checksum: "crc32"|"none", first_key, cache}.
pub fn disk_opts(path: &str, o: &Value) -> SecondaryStorageOptions {
    let mut opts = SecondaryStorageOptions::default_for_cli();
    opts.path = path.into();
    opts.cache_size = o.get("cache").and_then(|v| v.as_u64()).unwrap_or(256) as usize;
    opts.target_block_size = o.get("block").and_then(|v| v.as_u64()).unwrap_or(16 * 1024) as usize;
    opts.target_rowset_size = o.get("rowset").and_then(|v| v.as_u64()).unwrap_or(1 << 20) as usize;
    opts.record_first_key = o.get("first_key").and_then(|v| v.as_bool()).unwrap_or(true);
    if o.get("checksum").and_then(|v| v.as_str()) == Some("none") {
        opts.checksum_type = risinglight_proto::rowset::block_checksum::ChecksumType::None;
    }
    opts
}

/// One cell: JSON null for NULL, otherwise the display string of the value (strings unquoted).
pub fn cell(a: &ArrayImpl, i: usize) -> Value {
    use risinglight::types::DataValue;
    match a.get(i) {
        DataValue::Null => Value::Null,
        DataValue::String(s) => Value::String(s.to_string()),
        v => Value::String(v.to_string()),
    }
}

/// Result of one statement as JSON: {"cols":[type names], "rows":[[cell,...],...]}.
pub fn chunks_json(chunks: &[Chunk]) -> Value {
    let mut cols: Option<Vec<String>> = None;
    let mut rows = vec![];
    let mut ragged = false;
    for c in chunks {
        for d in c.data_chunks() {
            let tys: Vec<String> = d.arrays().iter().map(|a| a.type_string().to_string()).collect();
            match &cols {
                None => cols = Some(tys),
                Some(c0) => {
                    if *c0 != tys {
                        ragged = true;
                    }
                }
            }
            for i in 0..d.cardinality() {
                rows.push(Value::Array(d.arrays().iter().map(|a| cell(a, i)).collect()));
            }
        }
    }
    let mut v = json!({"cols": cols.unwrap_or_default(), "rows": rows});
    if ragged {
        v["ragged"] = json!(true);
    }
    v
}

/// Classify an error: first line, with the top-level kind kept.
pub fn err_json(e: &risinglight::Error) -> Value {
    let kind = match e {
        risinglight::Error::Parse(_) => "parse",
        risinglight::Error::Bind(_) => "bind",
        risinglight::Error::Execute(_) => "execute",
        risinglight::Error::Storage(_) => "storage",
        risinglight::Error::Internal(_) => "internal",
    };
    let msg: String = e.to_string().lines().next().unwrap_or("").chars().take(300).collect();
    json!({"err": kind, "msg": msg})
}

/// Reseed the LD_PRELOADed getrandom shim (no-op when the shim is not loaded). Returns whether it is loaded.
pub fn reseed(seed: u64) -> bool {
    unsafe {
        let sym = libc::dlsym(libc::RTLD_DEFAULT, c"rlv_reseed".as_ptr());
        if sym.is_null() {
            return false;
        }
        let f: extern "C" fn(u64) = std::mem::transmute(sym);
        f(seed);
        true
    }
}

/// Run `f` on a fresh OS thread after reseeding the shim: std's per-thread hash keys are drawn anew, so every
/// HashMap/HashSet iteration order inside `f` is a deterministic function of `seed` (and of `f`).
pub fn on_fresh_thread<T: Send + 'static>(seed: u64, f: impl FnOnce() -> T + Send + 'static) -> T {
    reseed(seed);
    std::thread::Builder::new()
        .stack_size(16 << 20)
        .spawn(f)
        .unwrap()
        .join()
        .unwrap_or_else(|e| std::panic::resume_unwind(e))
}
