//! E3 / C15 — operator fault enumeration.
//! `rlv fault` reads one job per line: {"id", "engine", "opts", "setup": [sql..], "stmt": sql, "observe": [sql..]}
//! 1. fault-free run on a fresh database: records every (operator, item index) the plan asks for, the statement result
//!    and the observation queries' results;
//! 2. for every recorded position (operator, k, occurrence) and every kind in {error, panic}: fresh database, setup,
//!    arm a plan that injects exactly that fault, run the statement, then the observation queries (and, on disk,
//!    again after a reopen).
//! Output: one JSON line {"id", "reference": {...}, "runs": [{"op","k","occ","kind","result","observe","observe_reopen"}]}.
use std::collections::BTreeMap;
use std::io::{BufRead, Write};
use std::sync::{Arc, Mutex};

use futures::FutureExt;
use risinglight::Database;
use risinglight::verif::FaultAction;
use serde_json::{Value, json};

use crate::sqlrun::{open_db, paused_rt, run_stmt};
use crate::util::*;

fn sorted(mut v: Value) -> Value {
    if let Some(rows) = v.get_mut("rows").and_then(|r| r.as_array_mut()) {
        rows.sort_by_key(|r| r.to_string());
    }
    // keep results small: the harness compares digests
    if let Some(rows) = v.get("rows").and_then(|r| r.as_array()) {
        if rows.len() > 40 {
            let n = rows.len();
            let digest = {
                use std::hash::{Hash, Hasher};
                let mut h = std::collections::hash_map::DefaultHasher::new();
                for r in rows {
                    r.to_string().hash(&mut h);
                }
                h.finish()
            };
            v["rows"] = json!([[format!("{n} rows, digest {digest:x}")]]);
        }
    }
    v
}

type Calls = Arc<Mutex<Vec<(String, usize)>>>;

async fn one_run(job: &Value, target: Option<(String, usize, usize, FaultAction)>, calls: Option<Calls>) -> Value {
    let engine = job["engine"].as_str().unwrap_or("mem");
    let opts = job.get("opts").cloned().unwrap_or(json!({}));
    let dir = fresh_dir("fault");
    let _ = std::fs::remove_dir_all(&dir);
    let db: Database = match open_db(engine, &dir, &opts).await {
        Ok(d) => d,
        Err(p) => return json!({"open_panic": p}),
    };
    for s in job["setup"].as_array().unwrap() {
        let r = run_stmt(&db, s.as_str().unwrap()).await;
        if r.get("rows").is_none() {
            return json!({"setup_failed": r, "stmt": s});
        }
    }
    if engine == "disk" {
        // let the compactor's first pass finish so that it does not race the statement under test
        tokio::time::sleep(std::time::Duration::from_millis(10)).await;
    }
    // arm
    let seen: Arc<Mutex<BTreeMap<(String, usize), usize>>> = Default::default();
    let fired = Arc::new(Mutex::new(false));
    {
        let (seen, fired, calls, target) = (seen.clone(), fired.clone(), calls.clone(), target.clone());
        risinglight::verif::set_fault_plan(Some(Box::new(move |op, k| {
            if let Some(c) = &calls {
                c.lock().unwrap().push((op.to_string(), k));
            }
            let mut s = seen.lock().unwrap();
            let occ = s.entry((op.to_string(), k)).or_insert(0);
            let this = *occ;
            *occ += 1;
            if let Some((top, tk, tocc, action)) = &target {
                if top == op && *tk == k && *tocc == this {
                    *fired.lock().unwrap() = true;
                    return *action;
                }
            }
            FaultAction::None
        })));
    }
    let result = run_stmt(&db, job["stmt"].as_str().unwrap()).await;
    risinglight::verif::set_fault_plan(None);
    let mut obs = vec![];
    for q in job["observe"].as_array().unwrap() {
        obs.push(sorted(run_stmt(&db, q.as_str().unwrap()).await));
    }
    let mut out = json!({"result": sorted(result), "observe": obs, "fired": *fired.lock().unwrap()});
    if engine == "disk" {
        let sd = std::panic::AssertUnwindSafe(db.shutdown()).catch_unwind().await;
        if !matches!(sd, Ok(Ok(()))) {
            out["shutdown_failed"] = json!(true);
        }
        drop(db);
        tokio::task::yield_now().await;
        match open_db(engine, &dir, &opts).await {
            Ok(db2) => {
                let mut obs2 = vec![];
                for q in job["observe"].as_array().unwrap() {
                    obs2.push(sorted(run_stmt(&db2, q.as_str().unwrap()).await));
                }
                out["observe_reopen"] = json!(obs2);
                let _ = std::panic::AssertUnwindSafe(db2.shutdown()).catch_unwind().await;
            }
            Err(p) => out["observe_reopen"] = json!({"open_panic": p}),
        }
        let _ = std::fs::remove_dir_all(&dir);
    }
    out
}

pub fn run_job(job: &Value) -> Value {
    let calls: Calls = Default::default();
    let reference = {
        let rt = paused_rt();
        let r = rt.block_on(one_run(job, None, Some(calls.clone())));
        drop(rt);
        r
    };
    let _ = take_panics();
    // distinct positions with their occurrence counts
    let mut occs: BTreeMap<(String, usize), usize> = BTreeMap::new();
    for (op, k) in calls.lock().unwrap().iter() {
        *occs.entry((op.clone(), *k)).or_insert(0) += 1;
    }
    let mut runs = vec![];
    for ((op, k), n) in &occs {
        for occ in 0..*n {
            for (kind, action) in [("error", FaultAction::Error), ("panic", FaultAction::Panic)] {
                let rt = paused_rt();
                let r = rt.block_on(one_run(job, Some((op.clone(), *k, occ, action)), None));
                drop(rt);
                let _ = take_panics();
                let mut o = json!({"op": op, "k": k, "occ": occ, "kind": kind});
                for (key, v) in r.as_object().unwrap() {
                    o[key] = v.clone();
                }
                runs.push(o);
            }
        }
    }
    json!({"id": job["id"], "reference": reference, "positions": occs.iter().map(|((op, k), n)| json!([op, k, n])).collect::<Vec<_>>(), "runs": runs})
}

pub fn main(_args: &[String]) -> i32 {
    let stdin = std::io::stdin();
    let stdout = std::io::stdout();
    for line in stdin.lock().lines() {
        let Ok(line) = line else { break };
        if line.trim().is_empty() {
            continue;
        }
        let job: Value = serde_json::from_str(&line).unwrap();
        let seed = job.get("_seed").and_then(|v| v.as_u64()).unwrap_or(0);
        let out = on_fresh_thread(seed, move || run_job(&job));
        let mut o = stdout.lock();
        let _ = writeln!(o, "{}", out);
        let _ = o.flush();
    }
    0
}
