//! `rlv rules --shard i/n` — E5: per-rewrite-rule check (C01, second half).
//! For every rewrite rule of the optimizer's rule lists (re-exported by the `planner::verif` hook): instantiate every
//! pattern variable of the rule's left-hand side with every atom of the right sort (scalar / boolean expression, key
//! list, projection list, aggregate list, plan, join type, limit/offset constant), keep the instantiations the real
//! type checker accepts and the real executor can run, add the term to a fresh e-graph, run ONLY that rule for one
//! iteration, enumerate the members of the root e-class (bounded) and execute each: every member must return the same
//! rows as the instantiated left-hand side (the optimizer claims they are equal).
//! Output: one JSON line per disagreement and a summary line.
use std::collections::{BTreeMap, HashSet};
use std::sync::Arc;

use egg::{ENodeOrVar, Id, Language, Runner, Var};
use futures::{FutureExt, TryStreamExt};
use risinglight::catalog::{ColumnRefId, RootCatalogRef, TableRefId};
use risinglight::planner::verif as pv;
use risinglight::planner::{Config, Expr, ExprAnalysis, Optimizer, RecExpr, Statistics, TypeSchemaAnalysis};
use risinglight::storage::InMemoryStorage;
use risinglight::types::DataValue;
use serde_json::json;

use crate::sqlrun::paused_rt;
use crate::util::*;

type RE = RecExpr;

fn append(out: &mut RE, sub: &RE) -> Id {
    let base = out.as_ref().len();
    let mut last = Id::from(0);
    for n in sub.as_ref() {
        last = out.add(n.clone().map_children(|c| Id::from(usize::from(c) + base)));
    }
    last
}

fn instantiate(pat: &egg::PatternAst<Expr>, subst: &dyn Fn(Var) -> RE) -> RE {
    let mut out = RE::default();
    let mut map: Vec<Id> = vec![];
    for n in pat.as_ref() {
        let id = match n {
            ENodeOrVar::Var(v) => append(&mut out, &subst(*v)),
            ENodeOrVar::ENode(e) => out.add(e.clone().map_children(|c| map[usize::from(c)])),
        };
        map.push(id);
    }
    out
}

fn enum_terms(eg: &pv::EGraph, id: Id, depth: usize, visiting: &mut HashSet<Id>, cap: usize) -> Vec<RE> {
    let id = eg.find(id);
    if depth == 0 || !visiting.insert(id) {
        return vec![];
    }
    let mut res: Vec<RE> = vec![];
    for node in &eg[id].nodes {
        let mut partial: Vec<Vec<RE>> = vec![vec![]];
        let mut ok = true;
        for &c in node.children() {
            let ct = enum_terms(eg, c, depth - 1, visiting, cap);
            if ct.is_empty() {
                ok = false;
                break;
            }
            let mut np = vec![];
            for p in &partial {
                for t in &ct {
                    if np.len() < cap {
                        let mut q = p.clone();
                        q.push(t.clone());
                        np.push(q);
                    }
                }
            }
            partial = np;
        }
        if !ok {
            continue;
        }
        for kids in partial {
            let mut out = RE::default();
            let kid_ids: Vec<Id> = kids.iter().map(|k| append(&mut out, k)).collect();
            let mut i = 0;
            out.add(node.clone().map_children(|_| {
                let r = kid_ids[i];
                i += 1;
                r
            }));
            if res.len() < cap {
                res.push(out);
            }
        }
    }
    visiting.remove(&id);
    res
}

struct Ctx {
    t: [TableRefId; 3],
}

fn re(nodes: impl FnOnce(&mut RE)) -> RE {
    let mut e = RE::default();
    nodes(&mut e);
    e
}

impl Ctx {
    fn col(&self, t: usize, c: u32) -> RE {
        re(|e| {
            e.add(Expr::Column(ColumnRefId::from_table(self.t[t], 0, c)));
        })
    }
    fn scan(&self, t: usize) -> RE {
        re(|e| {
            let tid = e.add(Expr::Table(self.t[t]));
            let c0 = e.add(Expr::Column(ColumnRefId::from_table(self.t[t], 0, 0)));
            let c1 = e.add(Expr::Column(ColumnRefId::from_table(self.t[t], 0, 1)));
            let l = e.add(Expr::List([c0, c1].into()));
            let tr = e.add(Expr::true_());
            e.add(Expr::Scan([tid, l, tr]));
        })
    }
    fn int(v: i32) -> RE {
        re(|e| {
            e.add(Expr::Constant(DataValue::Int32(v)));
        })
    }
    fn cst(v: DataValue) -> RE {
        re(|e| {
            e.add(Expr::Constant(v));
        })
    }
    fn bin(f: fn([Id; 2]) -> Expr, a: &RE, b: &RE) -> RE {
        let mut e = RE::default();
        let x = append(&mut e, a);
        let y = append(&mut e, b);
        e.add(f([x, y]));
        e
    }
    fn un(f: fn(Id) -> Expr, a: &RE) -> RE {
        let mut e = RE::default();
        let x = append(&mut e, a);
        e.add(f(x));
        e
    }
    fn list(items: &[RE]) -> RE {
        let mut e = RE::default();
        let ids: Vec<Id> = items.iter().map(|i| append(&mut e, i)).collect();
        e.add(Expr::List(ids.into()));
        e
    }
    fn filter(cond: &RE, child: &RE) -> RE {
        Self::bin(Expr::Filter, cond, child)
    }
    fn order(keys: &RE, child: &RE) -> RE {
        Self::bin(Expr::Order, keys, child)
    }

    /// Atom menu for a pattern variable, chosen by its name (the rule files use consistent names).
    fn atoms(&self, var: &str, scalar_rule: bool) -> Vec<RE> {
        let (a1, b1, a2, c2, a3) = (self.col(0, 0), self.col(0, 1), self.col(1, 0), self.col(1, 1), self.col(2, 0));
        let gt0 = |x: &RE| Self::bin(Expr::Gt, x, &Self::int(0));
        if scalar_rule {
            // table s(a int, b int, c bool): ints and booleans share the variable names in expr.rs; the type checker sorts them out
            let sc = self.col(0, 2);
            return vec![a1, b1, sc, Self::cst(DataValue::Null), Self::int(0), Self::int(1), Self::int(2), Self::int(-1),
                        Self::cst(DataValue::Bool(true)), Self::cst(DataValue::Bool(false))];
        }
        let v = var.trim_start_matches('?');
        match v {
            "child" | "left" => vec![self.scan(0), Self::filter(&gt0(&b1), &self.scan(0)), Self::order(&Self::list(&[a1.clone()]), &self.scan(0))],
            "right" => vec![self.scan(1), Self::filter(&gt0(&c2), &self.scan(1)), Self::order(&Self::list(&[a2.clone()]), &self.scan(1))],
            "mid" => vec![self.scan(2)],
            "cond" | "cond1" | "cond2" | "on" | "condl" => vec![
                Self::bin(Expr::Eq, &a1, &a2), gt0(&b1), gt0(&c2), Self::cst(DataValue::Bool(true)), Self::bin(Expr::Eq, &a2, &a3),
                Self::bin(Expr::Eq, &a1, &a3), Self::bin(Expr::Lt, &b1, &c2), Self::un(Expr::IsNull, &b1), Self::bin(Expr::Eq, &a1, &Self::int(1)),
            ],
            "type" => vec![re(|e| { e.add(Expr::Inner); }), re(|e| { e.add(Expr::LeftOuter); }), re(|e| { e.add(Expr::RightOuter); }),
                           re(|e| { e.add(Expr::FullOuter); }), re(|e| { e.add(Expr::Semi); }), re(|e| { e.add(Expr::Anti); })],
            "keys" | "lkey" | "lkeys" => vec![Self::list(&[a1.clone()]), Self::list(&[Self::un(Expr::Desc, &b1), a1.clone()]), Self::list(&[b1.clone()])],
            "rkey" | "rkeys" => vec![Self::list(&[a2.clone()]), Self::list(&[c2.clone()])],
            "aggs" => vec![Self::list(&[Self::un(Expr::Sum, &b1)]), Self::list(&[Self::un(Expr::Count, &a1), re(|e| { e.add(Expr::RowCount); })])],
            "proj" | "projl" | "exprs" => vec![Self::list(&[a1.clone(), b1.clone()]), Self::list(&[a1.clone()]), Self::list(&[a1.clone(), c2.clone()]), Self::list(&[a2.clone()])],
            "limit" => vec![Self::int(1), Self::int(2), Self::cst(DataValue::Null), Self::int(0)],
            "offset" => vec![Self::int(0), Self::int(1)],
            "l1" | "l2" | "l3" => vec![a1, b1],
            "r1" | "r2" | "r3" => vec![a2, c2],
            _ => vec![],
        }
    }
}

async fn exec(catalog: &RootCatalogRef, storage: &Arc<InMemoryStorage>, plan: &RE) -> Result<(Vec<String>, Vec<String>), String> {
    let optimizer = Optimizer::new(catalog.clone(), Statistics::default(), Config::default());
    let built = std::panic::catch_unwind(std::panic::AssertUnwindSafe(|| risinglight::executor::build(optimizer, storage.clone(), plan)));
    let ex = match built {
        Ok(e) => e,
        Err(e) => return Err(format!("build-panic: {}", panic_msg(e).lines().next().unwrap_or(""))),
    };
    let r = std::panic::AssertUnwindSafe(ex.try_collect::<Vec<_>>()).catch_unwind().await;
    let _ = take_panics();
    match r {
        Ok(Ok(chunks)) => {
            let mut rows = vec![];
            for c in &chunks {
                for i in 0..c.cardinality() {
                    rows.push(c.arrays().iter().map(|a| a.get_to_string(i)).collect::<Vec<_>>().join(","));
                }
            }
            let seq = rows.clone();
            rows.sort();
            Ok((rows, seq))
        }
        Ok(Err(e)) => Err(format!("err: {}", e.to_string().lines().next().unwrap_or(""))),
        Err(e) => Err(format!("panic: {}", panic_msg(e).lines().next().unwrap_or(""))),
    }
}

/// A scalar expression is evaluated as `(proj (list e) (scan s))` over the full cross product table.
fn scalar_plan(ctx: &Ctx, e: &RE) -> RE {
    let mut p = RE::default();
    let x = append(&mut p, e);
    let l = p.add(Expr::List([x].into()));
    let tid = p.add(Expr::Table(ctx.t[0]));
    let cols: Vec<Id> = (0..3).map(|c| p.add(Expr::Column(ColumnRefId::from_table(ctx.t[0], 0, c)))).collect();
    let cl = p.add(Expr::List(cols.into()));
    let tr = p.add(Expr::true_());
    let sc = p.add(Expr::Scan([tid, cl, tr]));
    p.add(Expr::Proj([l, sc]));
    p
}

pub fn main(args: &[String]) -> i32 {
    let (mut si, mut sn) = (0usize, 1usize);
    let mut i = 0;
    while i < args.len() {
        if args[i] == "--shard" {
            let p: Vec<usize> = args[i + 1].split('/').map(|x| x.parse().unwrap()).collect();
            si = p[0];
            sn = p[1];
            i += 1;
        }
        i += 1;
    }
    let rt = paused_rt();
    let code = rt.block_on(async {
        let storage = Arc::new(InMemoryStorage::new());
        let catalog = storage.catalog().clone();
        let stat = Statistics::default();
        let cfg = Config::default();
        // scalar table s = full cross product of the boundary domain; plan tables t1,t2,t3 small with NULLs and duplicates
        let vals = ["null", "0", "1", "-1", "2"];
        let bools = ["null", "true", "false"];
        let mut rows = vec![];
        for a in vals {
            for b in vals {
                for c in bools {
                    rows.push(format!("({a},{b},{c})"));
                }
            }
        }
        let setup_scalar = vec!["create table s(a int, b int, c boolean)".to_string(), format!("insert into s values {}", rows.join(","))];
        let setup_plan = vec![
            "create table t1(a int, b int)".to_string(), "create table t2(a int, c int)".to_string(), "create table t3(a int, d int)".to_string(),
            "insert into t1 values (1,1),(2,null),(null,3),(2,2),(3,0),(1,-1)".to_string(),
            "insert into t2 values (1,1),(2,null),(null,3),(1,2),(3,0),(4,1)".to_string(),
            "insert into t3 values (1,5),(null,1),(2,0),(3,3)".to_string(),
        ];
        for s in setup_scalar.iter().chain(setup_plan.iter()) {
            let r = crate::planx::one_stmt_pub(&catalog, &storage, &stat, &cfg, s).await;
            if r.get("run").is_none() {
                println!("{}", json!({"machinery": "setup failed", "stmt": s.chars().take(60).collect::<String>(), "r": r}));
                return 3;
            }
        }
        let tid = |n: &str| catalog.get_table_id_by_name("postgres", n).unwrap();
        let sctx = Ctx { t: [tid("s"), tid("s"), tid("s")] };
        let pctx = Ctx { t: [tid("t1"), tid("t2"), tid("t3")] };
        let mut lists: Vec<(&str, Vec<pv::Rewrite>, bool)> = vec![
            ("expr", pv::expr::rules(), true),
            ("and", pv::expr::and_rules(), true),
            ("always_better", pv::plan::always_better_rules(), false),
            ("predicate_pushdown", pv::plan::predicate_pushdown_rules(), false),
            ("join_reorder", pv::plan::join_reorder_rules(), false),
            ("hash_join", pv::plan::hash_join_rules(), false),
            ("order", pv::order::order_rules(), false),
        ];
        let mut summary: BTreeMap<String, serde_json::Value> = BTreeMap::new();
        let mut ridx = 0usize;
        for (lname, rules, scalar) in lists.drain(..) {
            for rule in &rules {
                ridx += 1;
                if ridx % sn != si {
                    continue;
                }
                let rname = format!("{lname}/{}", rule.name);
                let Some(pat) = rule.searcher.get_pattern_ast() else {
                    summary.insert(rname, json!({"skipped": "no pattern ast"}));
                    continue;
                };
                let ctx = if scalar { &sctx } else { &pctx };
                let vars = rule.searcher.vars();
                let menus: Vec<Vec<RE>> = vars.iter().map(|v| ctx.atoms(&v.to_string(), scalar)).collect();
                if menus.iter().any(|m| m.is_empty()) {
                    summary.insert(rname, json!({"skipped": format!("no atoms for {:?}", vars.iter().map(|v| v.to_string()).collect::<Vec<_>>())}));
                    continue;
                }
                let n = vars.len();
                let mut idx = vec![0usize; n];
                let (mut inst, mut typed, mut runnable, mut fired, mut members, mut disagree, mut notrun) = (0u64, 0u64, 0u64, 0u64, 0u64, 0u64, 0u64);
                let mut emitted = 0;
                'outer: loop {
                    inst += 1;
                    let subst = |v: Var| -> RE {
                        let i = vars.iter().position(|x| *x == v).unwrap();
                        menus[i][idx[i]].clone()
                    };
                    let lhs = instantiate(pat, &subst);
                    let typed_ok = std::panic::catch_unwind(std::panic::AssertUnwindSafe(|| {
                        let mut teg = egg::EGraph::new(TypeSchemaAnalysis { catalog: catalog.clone() });
                        let root = teg.add_expr(&lhs);
                        teg[root].data.type_.is_ok()
                    }))
                    .unwrap_or(false);
                    if typed_ok {
                        typed += 1;
                        let lplan = if scalar { scalar_plan(ctx, &lhs) } else { lhs.clone() };
                        if let Ok((lrows, lseq)) = exec(&catalog, &storage, &lplan).await {
                            runnable += 1;
                            let terms = std::panic::catch_unwind(std::panic::AssertUnwindSafe(|| {
                                let analysis = ExprAnalysis { catalog: catalog.clone(), config: Config::default(), stat: Statistics::default() };
                                let runner = Runner::<_, _, ()>::new(analysis).with_expr(&lhs).with_iter_limit(1).run(std::iter::once(rule));
                                enum_terms(&runner.egraph, runner.roots[0], 8, &mut HashSet::new(), 40)
                            }))
                            .unwrap_or_default();
                            let others: Vec<&RE> = terms.iter().filter(|t| t.to_string() != lhs.to_string()).collect();
                            if !others.is_empty() {
                                fired += 1;
                            }
                            for t in others {
                                members += 1;
                                let tplan = if scalar { scalar_plan(ctx, t) } else { (*t).clone() };
                                match exec(&catalog, &storage, &tplan).await {
                                    Ok((trows, tseq)) => {
                                        let bad = if rule.name.as_str() == "limit-order-topn" {
                                            // LIMIT over a non-total order may legitimately pick different tied rows:
                                            // compare the number of rows and the multiset of the first order key only
                                            let kcol = |r: &String| -> String {
                                                let ki = vars.iter().position(|v| v.to_string() == "?keys").map(|i| idx[i]).unwrap_or(0);
                                                let col = if ki == 0 { 0 } else { 1 };
                                                r.split(',').nth(col).unwrap_or("").to_string()
                                            };
                                            let mut a: Vec<String> = lrows.iter().map(kcol).collect();
                                            let mut b: Vec<String> = trows.iter().map(kcol).collect();
                                            a.sort();
                                            b.sort();
                                            a != b
                                        } else {
                                            trows != lrows || (rule.name.as_str() == "useless-order" && tseq != lseq)
                                        };
                                        if bad {
                                            disagree += 1;
                                            if emitted < 400 {
                                                emitted += 1;
                                                let pos = lrows.iter().zip(&trows).position(|(x, y)| x != y);
                                                println!("{}", json!({"fail": rname, "lhs": lhs.to_string(), "rhs": t.to_string(),
                                                    "detail": format!("{} vs {} rows; first difference {:?}: {:?} vs {:?}", lrows.len(), trows.len(), pos, pos.map(|p| &lrows[p]), pos.map(|p| &trows[p]))}));
                                            } else {
                                                println!("{}", json!({"fail": rname, "lhs": lhs.to_string(), "rhs": t.to_string()}));
                                            }
                                        }
                                    }
                                    Err(_) => notrun += 1,
                                }
                            }
                        }
                    }
                    for k in 0..n {
                        idx[k] += 1;
                        if idx[k] < menus[k].len() {
                            continue 'outer;
                        }
                        idx[k] = 0;
                    }
                    break;
                }
                summary.insert(rname, json!({"instantiations": inst, "well_typed": typed, "runnable": runnable, "rule_fired": fired, "members_executed": members, "disagree": disagree, "member_not_runnable": notrun}));
            }
        }
        println!("{}", json!({"summary": summary}));
        0
    });
    drop(rt);
    code
}
