//! `rlv` — the verification harness binary. One subcommand per engine.
mod colenc;
mod crash;
mod e4;
mod faultinj;
mod mtsmoke;
mod ops;
mod planx;
mod rulecheck;
mod sqlrun;
mod util;

fn main() {
    let args: Vec<String> = std::env::args().collect();
    let cmd = args.get(1).map(|s| s.as_str()).unwrap_or("");
    util::install_quiet_panic_hook();
    let code = match cmd {
        "sql" => sqlrun::main(&args[2..]),
        "e4" => e4::main(&args[2..]),
        "crash" => crash::main(&args[2..]),
        "rules" => rulecheck::main(&args[2..]),
        "col" => colenc::main(&args[2..]),
        "ops" => ops::main(&args[2..]),
        "plan" => planx::main(&args[2..]),
        "fault" => faultinj::main(&args[2..]),
        "mtsmoke" => mtsmoke::main(&args[2..]),
        _ => {
            eprintln!("usage: rlv <sql|...> [args]");
            2
        }
    };
    std::process::exit(code);
}
