//! `rlv col --tier quick|thorough --shard i/n` — C06: column encodings round-trip every value exactly.
//! Exhaustive enumeration on the one-column hook: type x nullable x encode x block size x every array of length <= L over a
//! 3-value domain (+NULL) plus fixed long patterns x start row x every read script of <= K actions from
//! {next(None), next(1), next(2), next(7), skip(1), skip(2), skip(5)} followed by a drain. Oracle = slice arithmetic.
//! Prints one JSON line per failing case (capped per signature) and a summary line.
use std::collections::BTreeMap;

use risinglight::array::{ArrayBuilderImpl, ArrayImpl};
use risinglight::storage::column_verif::{VerifColumn, build_column};
use risinglight::types::{DataType, DataValue};
use serde_json::{Value, json};

use crate::util::*;

fn types() -> Vec<(&'static str, DataType)> {
    vec![
        ("int16", DataType::Int16),
        ("int32", DataType::Int32),
        ("int64", DataType::Int64),
        ("float64", DataType::Float64),
        ("bool", DataType::Bool),
        ("decimal", DataType::Decimal(Some(10), Some(2))),
        ("date", DataType::Date),
        ("timestamp", DataType::Timestamp),
        ("interval", DataType::Interval),
        ("varchar", DataType::String),
        ("blob", DataType::Blob),
    ]
}

/// symbol 0 = NULL, 1..=3 = three distinct values of the type (incl. an extreme and an "empty" one)
fn value(ty: &DataType, sym: u8, long: bool) -> DataValue {
    use std::str::FromStr;
    if sym == 0 {
        return DataValue::Null;
    }
    match ty {
        DataType::Int16 => DataValue::Int16([0, i16::MAX, -7][sym as usize - 1]),
        DataType::Int32 => DataValue::Int32([0, i32::MIN, 42][sym as usize - 1]),
        DataType::Int64 => DataValue::Int64([0, i64::MAX, -1][sym as usize - 1]),
        DataType::Float64 => DataValue::Float64([0.0, -1.5, 1e300][sym as usize - 1].into()),
        DataType::Bool => DataValue::Bool([false, true, true][sym as usize - 1]),
        DataType::Decimal(_, _) => DataValue::Decimal(rust_decimal::Decimal::from_str(["0", "-1.50", "12345678.90"][sym as usize - 1]).unwrap()),
        DataType::Date => DataValue::Date(risinglight::types::Date::from_str(["1970-01-01", "2024-02-29", "0001-01-01"][sym as usize - 1]).unwrap()),
        DataType::Timestamp => DataValue::Timestamp(risinglight::types::Timestamp::from_str(["1970-01-01 00:00:00", "2024-02-29 23:59:59", "1969-12-31 23:59:59"][sym as usize - 1]).unwrap()),
        DataType::Interval => DataValue::Interval(risinglight::types::Interval::from_str(["1 day 2 hours 3 seconds", "-2 months", "1 year 3 days 1 second"][sym as usize - 1]).unwrap()),
        DataType::String => {
            let base = ["", "a", "hello world, this is a longer string"][sym as usize - 1];
            DataValue::String(if long && sym == 3 { base.repeat(8).into() } else { base.into() })
        }
        DataType::Blob => {
            let base: &[u8] = [&b""[..], &b"\x00"[..], &b"\xff\x00binary blob payload"[..]][sym as usize - 1];
            DataValue::Blob(if long && sym == 3 { base.repeat(8).into() } else { base.to_vec().into() })
        }
        _ => unreachable!(),
    }
}

fn make_array(ty: &DataType, syms: &[u8], long: bool) -> ArrayImpl {
    let mut b = ArrayBuilderImpl::new(ty);
    for s in syms {
        b.push(&value(ty, *s, long));
    }
    b.finish()
}

#[derive(Clone, Copy, Debug)]
enum Act {
    Next(Option<usize>),
    Skip(usize),
}

fn act_str(a: &Act) -> String {
    match a {
        Act::Next(None) => "next".into(),
        Act::Next(Some(n)) => format!("next({n})"),
        Act::Skip(n) => format!("skip({n})"),
    }
}

const ACTS: [Act; 7] = [Act::Next(None), Act::Next(Some(1)), Act::Next(Some(2)), Act::Next(Some(7)), Act::Skip(1), Act::Skip(2), Act::Skip(5)];

fn scripts(k: usize) -> Vec<Vec<Act>> {
    let mut out: Vec<Vec<Act>> = vec![vec![]];
    let mut frontier: Vec<Vec<Act>> = vec![vec![]];
    for _ in 0..k {
        let mut next = vec![];
        for s in &frontier {
            for a in ACTS {
                let mut t = s.clone();
                t.push(a);
                next.push(t);
            }
        }
        out.extend(next.iter().cloned());
        frontier = next;
    }
    out
}

/// Run one read script; returns Err(signature, detail) on the first deviation from slice arithmetic.
async fn run_script(col: &VerifColumn, syms: &[u8], ty: &DataType, long: bool, start: usize, script: &[Act]) -> Result<(), (String, String)> {
    let n = syms.len();
    let mut it = match col.scan(start as u32).await {
        Ok(i) => i,
        Err(e) => return Err(("scan-open-fails".into(), e.to_string().lines().next().unwrap_or("").into())),
    };
    let mut pos = start;
    let mut actions: Vec<Act> = script.to_vec();
    let mut draining = false;
    let mut step = 0usize;
    loop {
        let act = if step < actions.len() {
            actions[step]
        } else {
            draining = true;
            Act::Next(None)
        };
        step += 1;
        if step > 4 * n + 64 {
            return Err(("scan-does-not-terminate".into(), format!("pos {pos} of {n}")));
        }
        match act {
            Act::Skip(k) => {
                if k > n - pos {
                    // skipping past the end is outside the contract: drop the rest of the script
                    actions.truncate(step - 1);
                    step -= 1;
                    continue;
                }
                it.skip(k);
                pos += k;
            }
            Act::Next(exp) => match it.next_batch(exp).await {
                Err(e) => return Err(("read-fails".into(), e.to_string().lines().next().unwrap_or("").into())),
                Ok(None) => {
                    if pos != n {
                        return Err(("rows-lost-at-end".into(), format!("iterator ended at row {pos}, column has {n} rows")));
                    }
                    if draining {
                        return Ok(());
                    }
                }
                Ok(Some((row_id, batch))) => {
                    let len = batch.len();
                    if row_id as usize != pos {
                        return Err(("wrong-row-id".into(), format!("reported row id {row_id}, expected {pos}")));
                    }
                    if len == 0 {
                        return Err(("empty-batch".into(), format!("at row {pos}")));
                    }
                    if let Some(e) = exp {
                        if len > e {
                            return Err(("batch-larger-than-requested".into(), format!("{len} > {e}")));
                        }
                    }
                    if pos + len > n {
                        return Err(("reads-past-the-end".into(), format!("row {pos} + {len} > {n}")));
                    }
                    for i in 0..len {
                        let got = batch.get(i);
                        let want = value(ty, syms[pos + i], long);
                        if got != want {
                            return Err(("value-differs".into(), format!("row {}: got {got:?}, wrote {want:?}", pos + i)));
                        }
                    }
                    pos += len;
                }
            },
        }
    }
}

fn all_arrays(maxlen: usize, nullable: bool) -> Vec<Vec<u8>> {
    let lo = if nullable { 0u8 } else { 1u8 };
    let mut out = vec![vec![]];
    let mut frontier: Vec<Vec<u8>> = vec![vec![]];
    for _ in 0..maxlen {
        let mut next = vec![];
        for a in &frontier {
            for s in lo..=3u8 {
                let mut b = a.clone();
                b.push(s);
                next.push(b);
            }
        }
        out.extend(next.iter().cloned());
        frontier = next;
    }
    out
}

fn fixed_patterns(nullable: bool) -> Vec<(Vec<u8>, bool)> {
    let z = if nullable { 0u8 } else { 2u8 };
    let mut v: Vec<(Vec<u8>, bool)> = vec![];
    // run crossing 2-3 blocks, with one different element in the middle
    let mut a = vec![1u8; 40];
    a.push(2);
    a.extend(vec![1u8; 40]);
    v.push((a, false));
    // alternation
    v.push(((0..100).map(|i| if i % 2 == 0 { 1 } else { 3 }).collect(), false));
    // all NULL (or all the same), then values
    let mut b = vec![z; 70];
    b.extend([1, 2, 3, 3, 3]);
    v.push((b, false));
    // long values (strings longer than a block) mixed with short ones
    v.push(((0..30).map(|i| [3u8, 1, 3, z, 2][i % 5]).collect(), true));
    // few long then many short (blocks with very different row counts)
    let mut c = vec![3u8; 6];
    c.extend(vec![1u8; 120]);
    c.extend(vec![3u8; 3]);
    v.push((c, true));
    // many distinct positions: period-3 pattern over 300 rows
    v.push(((0..300).map(|i| [1u8, 2, 3, z][(i * 7 + i / 5) % 4]).collect(), false));
    v
}

pub fn main(args: &[String]) -> i32 {
    let mut tier = "quick".to_string();
    let (mut si, mut sn) = (0usize, 1usize);
    let mut i = 0;
    while i < args.len() {
        match args[i].as_str() {
            "--tier" => {
                tier = args[i + 1].clone();
                i += 1;
            }
            "--shard" => {
                let p: Vec<usize> = args[i + 1].split('/').map(|x| x.parse().unwrap()).collect();
                si = p[0];
                sn = p[1];
                i += 1;
            }
            _ => {}
        }
        i += 1;
    }
    let thorough = tier == "thorough";
    let maxlen = if thorough { 6 } else { 4 };
    let k = if thorough { 3 } else { 2 };
    let block_sizes: Vec<usize> = if thorough { vec![24, 32, 48, 64, 128] } else { vec![32, 64, 128] };
    let rt = tokio::runtime::Builder::new_current_thread().enable_all().build().unwrap();
    let scr = scripts(k);
    let mut combos = vec![];
    for (tn, ty) in types() {
        for nullable in [false, true] {
            for enc in ["plain", "rle", "dict"] {
                combos.push((tn, ty.clone(), nullable, enc));
            }
        }
    }
    let mut total: u64 = 0;
    let mut fails: BTreeMap<String, u64> = BTreeMap::new();
    let mut per_combo: BTreeMap<String, u64> = BTreeMap::new();
    let mut emitted: BTreeMap<String, u64> = BTreeMap::new();
    for (ci, (tn, ty, nullable, enc)) in combos.iter().enumerate() {
        if ci % sn != si {
            continue;
        }
        let mut arrays: Vec<(Vec<u8>, bool)> = all_arrays(maxlen, *nullable).into_iter().map(|a| (a, false)).collect();
        arrays.extend(fixed_patterns(*nullable));
        let ckey = format!("{tn}:{}:{enc}", if *nullable { "nullable" } else { "notnull" });
        let n_enum = arrays.len() - fixed_patterns(*nullable).len();
        for (ai, (syms, long)) in arrays.iter().enumerate() {
            if syms.is_empty() {
                continue;       // a column with zero rows is never written (RowsetWriter refuses empty row-sets)
            }
            let is_fixed = ai >= n_enum;
            let arr_json = if is_fixed { json!({"fixed_pattern": ai - n_enum, "len": syms.len()}) } else { json!(syms) };
            for bs in &block_sizes {
                // split the input into two appends to exercise builder state across appends
                let cut = syms.len() / 2;
                let built = std::panic::catch_unwind(std::panic::AssertUnwindSafe(|| {
                    let a1 = make_array(ty, &syms[..cut], *long);
                    let a2 = make_array(ty, &syms[cut..], *long);
                    build_column(ty.clone(), *nullable, enc, *bs, false, &[a1, a2])
                }));
                let col = match built {
                    Ok(Ok(c)) => c,
                    Ok(Err(e)) => {
                        total += 1;
                        let sig = format!("build-fails@{ckey}");
                        *fails.entry(sig.clone()).or_insert(0) += 1;
                        emit(&mut emitted, &sig, json!({"combo": ckey, "block": bs, "array": arr_json, "long": long}), e.to_string());
                        continue;
                    }
                    Err(e) => {
                        total += 1;
                        let sig = format!("build-panics@{ckey}");
                        *fails.entry(sig.clone()).or_insert(0) += 1;
                        emit(&mut emitted, &sig, json!({"combo": ckey, "block": bs, "array": arr_json, "long": long}), panic_msg(e));
                        continue;
                    }
                };
                let starts: Vec<usize> = if is_fixed { vec![0, 1, syms.len() / 3, syms.len() / 2 + 1, syms.len() - 1, syms.len()] } else { (0..=syms.len()).collect() };
                for start in starts {
                    let scripts_here: &[Vec<Act>] = if is_fixed && !thorough { &scr[..scr.len().min(8 + 49)] } else { &scr[..] };
                    for script in scripts_here {
                        total += 1;
                        *per_combo.entry(ckey.clone()).or_insert(0) += 1;
                        let r = std::panic::catch_unwind(std::panic::AssertUnwindSafe(|| rt.block_on(run_script(&col, syms, ty, *long, start, script))));
                        let (sig, detail) = match r {
                            Ok(Ok(())) => continue,
                            Ok(Err((s, d))) => (s, d),
                            Err(e) => ("scan-panics".to_string(), panic_msg(e).lines().next().unwrap_or("").to_string()),
                        };
                        let sig = format!("{sig}@{ckey}");
                        *fails.entry(sig.clone()).or_insert(0) += 1;
                        let case = json!({"combo": ckey, "block": bs, "array": arr_json, "long": long, "start": start, "script": script.iter().map(act_str).collect::<Vec<_>>()});
                        emit(&mut emitted, &sig, case, detail);
                    }
                }
            }
        }
    }
    let _ = take_panics();
    println!("{}", json!({"summary": {"cases": total, "fails": fails, "per_combo": per_combo, "maxlen": maxlen, "script_len": k, "block_sizes": block_sizes}}));
    0
}

fn emit(emitted: &mut BTreeMap<String, u64>, sig: &str, case: Value, detail: String) {
    let n = emitted.entry(sig.to_string()).or_insert(0);
    *n += 1;
    // every failing case is reported (the driver needs its id for the known-findings match), details only for the first few
    if *n <= 5 {
        println!("{}", json!({"fail": sig, "case": case, "detail": detail}));
    } else {
        println!("{}", json!({"fail": sig, "case": case}));
    }
}
