//! `rlv mtsmoke [iterations]` — free-running multi-thread smoke run (SAMPLING; decides nothing by itself).
//! Repeats simple statements on a multi-thread tokio runtime and counts statements that returned Ok with a wrong
//! number of rows. Used as a labelled smoke test by C10 (the exhaustive part of C10 is the gate exploration).
use risinglight::Database;
use serde_json::json;

pub fn main(args: &[String]) -> i32 {
    let iters: usize = args.first().and_then(|s| s.parse().ok()).unwrap_or(2000);
    let rt = tokio::runtime::Builder::new_multi_thread().worker_threads(4).enable_all().build().unwrap();
    let (mut wrong, mut errs, mut total) = (0usize, 0usize, 0usize);
    rt.block_on(async {
        let db = std::sync::Arc::new(Database::new_in_memory());
        db.run("create table t(a int, b int)").await.unwrap();
        // setup statements themselves may be hit by the defect: insert until the table really has 5 rows
        for _ in 0..200 {
            let n = db.run("select count(*) from t").await.map(|c| c.iter().map(|c| c.data_chunks().iter().map(|d| if d.cardinality() > 0 { d.array_at(0).get_to_string(0).parse::<usize>().unwrap_or(0) } else { 0 }).sum::<usize>()).sum::<usize>()).unwrap_or(0);
            if n >= 5 { break; }
            let _ = db.run("delete from t").await;
            let _ = db.run("insert into t values (1,1),(2,2),(3,3),(4,4),(5,5)").await;
        }
        let mut hs = vec![];
        for w in 0..4 {
            let db = db.clone();
            hs.push(tokio::spawn(async move {
                let (mut wrong, mut errs, mut total) = (0usize, 0usize, 0usize);
                for i in 0..iters / 4 {
                    let q = if (i + w) % 2 == 0 { "select a, b from t" } else { "select a from t where b > 0" };
                    match db.run(q).await {
                        Ok(chunks) => {
                            let n: usize = chunks.iter().map(|c| c.data_chunks().iter().map(|d| d.cardinality()).sum::<usize>()).sum();
                            if n != 5 { wrong += 1; }
                        }
                        Err(_) => errs += 1,
                    }
                    total += 1;
                }
                (wrong, errs, total)
            }));
        }
        for h in hs {
            let (w, e, t) = h.await.unwrap();
            wrong += w; errs += e; total += t;
        }
    });
    println!("{}", json!({"statements": total, "ok_with_wrong_row_count": wrong, "errors": errs}));
    0
}
