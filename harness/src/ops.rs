//! `rlv ops` — C11: all physical implementations of an operator agree.
//! Hand-built physical plans (RecExpr) are executed with `executor::build` over in-memory tables:
//!   joins:  nested-loop `join`, `hashjoin`, `mergejoin` (inputs sorted by `order`) for every join type;
//!   aggregation: `hashagg`, `sortagg` (input sorted), `agg` (no keys);
//!   `limit`(`order`) vs `topn`.
//! job = {"id", "tables": {"l": [[g,k1,k2,p],...], "r": [[g,k1,k2,q],...]}, "cases": [case...]}
//! case = {"op":"join","type":..,"nkeys":1|2,"resid":bool,"gl":int,"gr":int} | {"op":"agg","keys":[..],"aggs":[..],"g":int}
//!      | {"op":"topn","keys":[[col,desc]..],"limit":n|null,"offset":m,"g":int}
//! Output per case: {"impls": {"nl": rows|err, "hash": ..., "merge": ...}}
use std::collections::BTreeMap;
use std::io::{BufRead, Write};
use std::sync::Arc;

use egg::Id;
use futures::{FutureExt, TryStreamExt};
use risinglight::catalog::{ColumnRefId, RootCatalogRef, TableRefId};
use risinglight::planner::{Config, Expr, Optimizer, RecExpr, Statistics};
use risinglight::storage::InMemoryStorage;
use risinglight::types::DataValue;
use serde_json::{Value, json};

use crate::sqlrun::paused_rt;
use crate::util::*;

struct B {
    e: RecExpr,
}

impl B {
    fn new() -> Self {
        B { e: RecExpr::default() }
    }
    fn add(&mut self, n: Expr) -> Id {
        self.e.add(n)
    }
    fn int(&mut self, v: i32) -> Id {
        self.add(Expr::Constant(DataValue::Int32(v)))
    }
    fn null(&mut self) -> Id {
        self.add(Expr::null())
    }
    fn tru(&mut self) -> Id {
        self.add(Expr::true_())
    }
    fn col(&mut self, t: TableRefId, c: u32) -> Id {
        self.add(Expr::Column(ColumnRefId::from_table(t, 0, c)))
    }
    fn list(&mut self, v: Vec<Id>) -> Id {
        self.add(Expr::List(v.into()))
    }
    /// (filter (= g <grp>) (scan t [all 4 cols] true)) projected to columns 1..4 (k1,k2,p)
    fn input(&mut self, t: TableRefId, grp: i32) -> (Id, [Id; 3]) {
        let tid = self.add(Expr::Table(t));
        let cols: Vec<Id> = (0..4).map(|c| self.col(t, c)).collect();
        let l = self.list(cols.clone());
        let tr = self.tru();
        let scan = self.add(Expr::Scan([tid, l, tr]));
        let g = self.int(grp);
        let eq = self.add(Expr::Eq([cols[0], g]));
        let f = self.add(Expr::Filter([eq, scan]));
        let pl = self.list(vec![cols[1], cols[2], cols[3]]);
        let p = self.add(Expr::Proj([pl, f]));
        (p, [cols[1], cols[2], cols[3]])
    }
    fn order(&mut self, keys: Vec<Id>, child: Id) -> Id {
        let l = self.list(keys);
        self.add(Expr::Order([l, child]))
    }
}

fn join_type(t: &str) -> Expr {
    match t {
        "inner" => Expr::Inner,
        "left_outer" => Expr::LeftOuter,
        "right_outer" => Expr::RightOuter,
        "full_outer" => Expr::FullOuter,
        "semi" => Expr::Semi,
        "anti" => Expr::Anti,
        _ => panic!("bad join type"),
    }
}

async fn exec(catalog: &RootCatalogRef, storage: &Arc<InMemoryStorage>, plan: &RecExpr) -> Value {
    let optimizer = Optimizer::new(catalog.clone(), Statistics::default(), Config::default());
    let built = std::panic::catch_unwind(std::panic::AssertUnwindSafe(|| risinglight::executor::build(optimizer, storage.clone(), plan)));
    let ex = match built {
        Ok(e) => e,
        Err(e) => return json!({"build_panic": panic_msg(e).lines().next().unwrap_or("").to_string()}),
    };
    let r = std::panic::AssertUnwindSafe(ex.try_collect::<Vec<_>>()).catch_unwind().await;
    let _ = take_panics();
    match r {
        Ok(Ok(chunks)) => {
            let mut rows: Vec<String> = vec![];
            for c in &chunks {
                for i in 0..c.cardinality() {
                    rows.push(c.arrays().iter().map(|a| a.get_to_string(i)).collect::<Vec<_>>().join(","));
                }
            }
            let seq = rows.clone();
            rows.sort();
            json!({"rows": rows, "seq": seq})
        }
        Ok(Err(e)) => json!({"err": e.to_string().lines().next().unwrap_or("").to_string()}),
        Err(e) => json!({"panic": panic_msg(e).lines().next().unwrap_or("").to_string()}),
    }
}

fn agg_node(b: &mut B, name: &str, arg: Id) -> Id {
    match name {
        "count(*)" => b.add(Expr::RowCount),
        "count" => b.add(Expr::Count(arg)),
        "sum" => b.add(Expr::Sum(arg)),
        "min" => b.add(Expr::Min(arg)),
        "max" => b.add(Expr::Max(arg)),
        "count-distinct" => b.add(Expr::CountDistinct(arg)),
        "first" => b.add(Expr::First(arg)),
        "last" => b.add(Expr::Last(arg)),
        _ => panic!("bad agg"),
    }
}

async fn run_case(catalog: &RootCatalogRef, storage: &Arc<InMemoryStorage>, lt: TableRefId, rt: TableRefId, c: &Value) -> Value {
    let mut impls = BTreeMap::new();
    match c["op"].as_str().unwrap() {
        "join" => {
            let ty = c["type"].as_str().unwrap();
            let nkeys = c["nkeys"].as_u64().unwrap() as usize;
            let resid = c["resid"].as_bool().unwrap_or(false);
            let (gl, gr) = (c["gl"].as_i64().unwrap() as i32, c["gr"].as_i64().unwrap() as i32);
            for imp in ["nl", "hash", "merge"] {
                if imp == "merge" && (ty == "semi" || ty == "anti") {
                    continue;
                }
                let mut b = B::new();
                let (l, lc) = b.input(lt, gl);
                let (r, rc) = b.input(rt, gr);
                let lkeys: Vec<Id> = lc[..nkeys].to_vec();
                let rkeys: Vec<Id> = rc[..nkeys].to_vec();
                let res = if resid { Some(b.add(Expr::Lt([lc[2], rc[2]]))) } else { None };
                let tnode = b.add(join_type(ty));
                let semi = ty == "semi" || ty == "anti";
                let root = match imp {
                    "nl" => {
                        let mut cond = b.add(Expr::Eq([lkeys[0], rkeys[0]]));
                        if nkeys == 2 {
                            let e2 = b.add(Expr::Eq([lkeys[1], rkeys[1]]));
                            cond = b.add(Expr::And([cond, e2]));
                        }
                        if let Some(res) = res {
                            cond = b.add(Expr::And([cond, res]));
                        }
                        b.add(Expr::Join([tnode, cond, l, r]))
                    }
                    _ => {
                        // hash / merge: residual allowed inside the node only for semi/anti hash joins; for inner joins it
                        // becomes a filter on top; for outer joins a residual cannot be expressed (skipped by the driver)
                        let (l2, r2) = if imp == "merge" { (b.order(lkeys.clone(), l), b.order(rkeys.clone(), r)) } else { (l, r) };
                        let lk = b.list(lkeys.clone());
                        let rk = b.list(rkeys.clone());
                        let cond = match (res, semi) {
                            (Some(res), true) => res,
                            _ => b.tru(),
                        };
                        let j = if imp == "hash" { b.add(Expr::HashJoin([tnode, cond, lk, rk, l2, r2])) } else { b.add(Expr::MergeJoin([tnode, cond, lk, rk, l2, r2])) };
                        match (res, semi) {
                            (Some(res), false) => b.add(Expr::Filter([res, j])),
                            _ => j,
                        }
                    }
                };
                let _ = root;
                impls.insert(imp.to_string(), exec(catalog, storage, &b.e).await);
            }
        }
        "agg" => {
            let g = c["g"].as_i64().unwrap() as i32;
            let keys: Vec<usize> = c["keys"].as_array().unwrap().iter().map(|x| x.as_u64().unwrap() as usize).collect();
            let aggs: Vec<(String, usize)> = c["aggs"].as_array().unwrap().iter().map(|x| (x[0].as_str().unwrap().to_string(), x[1].as_u64().unwrap() as usize)).collect();
            for imp in ["hash", "sort", "simple"] {
                if imp == "simple" && !keys.is_empty() {
                    continue;
                }
                let mut b = B::new();
                let (inp, cols) = b.input(lt, g);
                let kids: Vec<Id> = keys.iter().map(|k| cols[*k]).collect();
                let aids: Vec<Id> = aggs.iter().map(|(n, a)| agg_node(&mut b, n, cols[*a])).collect();
                let al = b.list(aids);
                match imp {
                    "hash" => {
                        let kl = b.list(kids);
                        b.add(Expr::HashAgg([kl, al, inp]));
                    }
                    "sort" => {
                        let o = b.order(kids.clone(), inp);
                        let kl = b.list(kids);
                        b.add(Expr::SortAgg([kl, al, o]));
                    }
                    _ => {
                        b.add(Expr::Agg([al, inp]));
                    }
                }
                impls.insert(imp.to_string(), exec(catalog, storage, &b.e).await);
            }
        }
        "topn" => {
            let g = c["g"].as_i64().unwrap() as i32;
            let keys: Vec<(usize, bool)> = c["keys"].as_array().unwrap().iter().map(|x| (x[0].as_u64().unwrap() as usize, x[1].as_bool().unwrap())).collect();
            for imp in ["limit-order", "topn"] {
                let mut b = B::new();
                let (inp, cols) = b.input(lt, g);
                let kids: Vec<Id> = keys.iter().map(|(k, d)| if *d { b.add(Expr::Desc(cols[*k])) } else { cols[*k] }).collect();
                let lim = match c["limit"].as_i64() {
                    Some(n) => b.int(n as i32),
                    None => b.null(),
                };
                let off = b.int(c["offset"].as_i64().unwrap_or(0) as i32);
                if imp == "topn" {
                    let kl = b.list(kids);
                    b.add(Expr::TopN([lim, off, kl, inp]));
                } else {
                    let o = b.order(kids, inp);
                    b.add(Expr::Limit([lim, off, o]));
                }
                impls.insert(imp.to_string(), exec(catalog, storage, &b.e).await);
            }
        }
        _ => {}
    }
    json!({"impls": impls})
}

pub fn run_job(job: &Value) -> Value {
    let rt = paused_rt();
    let out = rt.block_on(async {
        let storage = Arc::new(InMemoryStorage::new());
        let catalog = storage.catalog().clone();
        let stat = Statistics::default();
        let cfg = Config::default();
        // (the key columns of either table may be declared with other numeric types: joins on keys of different types)
        let ddl = |name: &str, last: &str| match job.get("key_types").and_then(|k| k.get(name)).and_then(|v| v.as_array()) {
            Some(t) => format!("create table {name}(g int, k1 {}, k2 {}, {last} int)", t[0].as_str().unwrap(), t[1].as_str().unwrap()),
            None => format!("create table {name}(g int, k1 int, k2 int, {last} int)"),
        };
        let mut setup = vec![ddl("l", "p"), ddl("r", "q")];
        for t in ["l", "r"] {
            let rows = job["tables"][t].as_array().unwrap();
            for chunk in rows.chunks(400) {
                let vals: Vec<String> = chunk.iter().map(|r| format!("({})", r.as_array().unwrap().iter().map(|v| if v.is_null() { "null".to_string() } else { v.to_string() }).collect::<Vec<_>>().join(","))).collect();
                setup.push(format!("insert into {t} values {}", vals.join(",")));
            }
        }
        for s in &setup {
            let r = crate::planx::one_stmt_pub(&catalog, &storage, &stat, &cfg, s).await;
            if r.get("run").is_none() {
                return json!({"id": job["id"], "setup_failed": r, "stmt": s.chars().take(80).collect::<String>()});
            }
        }
        let lt = catalog.get_table_id_by_name("postgres", "l").unwrap();
        let rtab = catalog.get_table_id_by_name("postgres", "r").unwrap();
        let mut results = vec![];
        for c in job["cases"].as_array().unwrap() {
            results.push(run_case(&catalog, &storage, lt, rtab, c).await);
        }
        json!({"id": job["id"], "results": results})
    });
    drop(rt);
    let _ = take_panics();
    out
}

pub fn main(_args: &[String]) -> i32 {
    let stdin = std::io::stdin();
    let stdout = std::io::stdout();
    for line in stdin.lock().lines() {
        let Ok(line) = line else { break };
        if line.trim().is_empty() {
            continue;
        }
        let job: Value = serde_json::from_str(&line).unwrap();
        let seed = job.get("_seed").and_then(|v| v.as_u64()).unwrap_or(0);
        let out = on_fresh_thread(seed, move || run_job(&job));
        let mut o = stdout.lock();
        let _ = writeln!(o, "{}", out);
        let _ = o.flush();
    }
    0
}
