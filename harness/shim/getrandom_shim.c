// LD_PRELOAD shim that makes the process's "OS randomness" a deterministic function of RLV_HASH_SEED.
// Rust's std (HashMap RandomState keys) and the getrandom crate (ahash, tokio's internal RNG seeds) obtain
// their seeds through libc's getrandom(); with this shim hash-map iteration order becomes an explicit,
// enumerable environment choice instead of uncontrolled nondeterminism.
#define _GNU_SOURCE
#include <stddef.h>
#include <stdint.h>
#include <stdlib.h>
#include <sys/types.h>

static uint64_t state = 0;
static int inited = 0;

static uint64_t next(void) {
    // splitmix64
    uint64_t z = (state += 0x9E3779B97F4A7C15ULL);
    z = (z ^ (z >> 30)) * 0xBF58476D1CE4E5B9ULL;
    z = (z ^ (z >> 27)) * 0x94D049BB133111EBULL;
    return z ^ (z >> 31);
}

// Called by the harness before every script / execution (on a fresh thread, so that std's thread-local
// RandomState keys are drawn again): the randomness seen by that script is a function of `seed` only.
void rlv_reseed(uint64_t seed) {
    state = seed * 0x2545F4914F6CDD1DULL + 0x1234567ULL;
    inited = 1;
}

ssize_t getrandom(void *buf, size_t buflen, unsigned int flags) {
    (void)flags;
    if (!inited) {
        const char *s = getenv("RLV_HASH_SEED");
        state = s ? strtoull(s, NULL, 10) : 0;
        state = state * 0x2545F4914F6CDD1DULL + 0x1234567ULL;
        inited = 1;
    }
    unsigned char *p = buf;
    for (size_t i = 0; i < buflen; i++) {
        if ((i & 7) == 0) {
            uint64_t v = next();
            for (size_t j = 0; j < 8 && i + j < buflen; j++) p[i + j] = (unsigned char)(v >> (8 * j));
        }
    }
    return (ssize_t)buflen;
}
