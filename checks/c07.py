"""C07 — deletes are exact and permanent; compaction is invisible.
Bounded exhaustive history exploration: every sequence of <= d operations over
{3 overlapping insert batches, 4 predicate deletes, forced compaction, shutdown+reopen} on a pk table and a
non-pk table, on every layout; after EVERY step the real table is compared with a plain multiset model."""
import json
from lib import core, runner, sqlutil as U

B = {
    "I1": [(2, 10), (4, None), (6, 10), (4, 10)],
    "I2": [(1, 20), (5, 10), (9, None)],
    "I3": [(3, None), (4, 30), (0, 10), (7, 7), (8, 8)],
}
DELS = {
    "Dk=4": ("delete from t where k = 4", lambda r: r[0] == 4),
    "Dk<5": ("delete from t where k < 5", lambda r: r[0] < 5),
    "Dvnull": ("delete from t where v is null", lambda r: r[1] is None),
    "Dall": ("delete from t", lambda r: True),
}
OPS = list(B) + list(DELS) + ["C", "R"]
# second alphabet: a batch that fills several blocks of one row-set (a 64-byte block holds about a dozen INT keys), and deletes
# that cover whole blocks / scan batches at the start or in the middle of the row-set while later rows of it survive
B["IB"] = [(i, None if i % 7 == 3 else i % 3) for i in range(40)]
DELS["Dk<26"] = ("delete from t where k < 26", lambda r: r[0] < 26)
DELS["Dmid"] = ("delete from t where k >= 8 and k <= 30", lambda r: 8 <= r[0] <= 30)
BIGOPS = ["IB", "I2", "Dk<26", "Dmid", "Dk=4", "C", "R"]
CHURN = ["I1", "I2", "Dk<5", "Dall", "C", "R"]      # two delete vectors on each of two row-sets, then compacted to nothing


def depth(tier):
    return 4 if tier == "quick" else 5


def configs(tier):
    cfgs = [("disk", l) for l in U.LAYOUTS_QUICK] + [("mem", None)]
    if tier == "thorough":
        cfgs += [("disk", l) for l in U.LAYOUTS_MORE]
    return cfgs


def build(case):
    h = case["history"]
    steps = [{"sql": f"create table t(k int{' primary key' if case['pk'] else ''}, v int)"}]
    for o in h:
        if o in B:
            steps.append({"sql": U.insert_sql("t", B[o])})
        elif o in DELS:
            steps.append({"sql": DELS[o][0]})
        elif o == "C":
            steps.append({"op": "compact"})
        else:
            steps.append({"op": "reopen"})
        steps.append({"sql": "select k, v from t"})
    steps.append({"sql": "select k, v from t order by k"})
    return {"id": case, "engine": case["engine"], "opts": case["layout"] or {}, "steps": steps}


def cases(tier):
    d = depth(tier)
    for pk in (True, False):
        for engine, layout in configs(tier):
            ops = OPS if engine == "disk" else [o for o in OPS if o not in ("C", "R")]
            for h in U.seqs(ops, d, d):
                yield {"pk": pk, "engine": engine, "layout": layout, "history": list(h)}
            if engine == "disk":
                for h in U.seqs(BIGOPS, d - 1, d - 1):
                    if "IB" in h:
                        yield {"pk": pk, "engine": engine, "layout": layout, "history": list(h)}
                # non-initial start state: two row-sets deleted completely and compacted away (only delete vectors of
                # vanished row-sets could be left); histories of d-1 further operations from there
                for h in U.seqs(ops, d - 1, d - 1):
                    yield {"pk": pk, "engine": engine, "layout": layout, "history": CHURN + list(h)}


def judge(chk, case, r, seen_prefix, states):
    """Walk the history; every prefix is its own case (judged once)."""
    if r.get("abort"):
        chk.fail(core.case_id(case), "abort", case, r)
        return 0
    res = r["results"]
    model = []
    i = 1
    if U.status(res[0]) != "rows":
        chk.fail(core.case_id(dict(case, history=[])), "setup:" + U.status(res[0]), case, res[0])
        return 0
    trans = 0
    for n, o in enumerate(case["history"]):
        pc = dict(case, history=case["history"][:n + 1])
        pkey = core.canon(pc)
        opr, obs = res[i], res[i + 1]
        i += 2
        first_time = pkey not in seen_prefix
        seen_prefix.add(pkey)
        want_count = None
        if o in B:
            model = model + B[o]
            want_count = len(B[o])
        elif o in DELS:
            pred = DELS[o][1]
            want_count = sum(1 for x in model if pred(x))
            model = [x for x in model if not pred(x)]
        if not first_time:
            if U.status(opr) not in ("rows", "ok") or not U.is_rows(obs) or U.mset(U.decode(obs)) != U.mset(model):
                return trans          # the failing prefix was already reported by the history that first reached it
            continue
        trans += 1
        cid = core.case_id(pc)
        st = U.status(opr)
        if st not in ("rows", "ok"):
            chk.fail(cid, "op:" + st, pc, opr)
            return trans
        if want_count is not None:
            got = U.decode(opr)
            if got != [(want_count,)]:
                chk.fail(cid, "wrong-reported-count", pc, {"reported": got, "want": want_count})
                return trans
        if not U.is_rows(obs):
            chk.fail(cid, "scan:" + U.status(obs), pc, obs)
            return trans
        rows = U.decode(obs)
        if U.mset(rows) != U.mset(model):
            lost = list((U.mset(model) - U.mset(rows)).elements())
            extra = list((U.mset(rows) - U.mset(model)).elements())
            sig = "rows-lost" if lost and not extra else "rows-resurrected-or-duplicated" if extra and not lost else "rows-differ"
            chk.fail(cid, sig, pc, {"table": rows, "model": model, "lost": lost, "extra": extra})
            return trans
        states.add((case["pk"], case["engine"], core.canon(case["layout"]), tuple(sorted(map(str, model)))))
        nontrivial = any(x in DELS for x in pc["history"]) or "C" in pc["history"] or "R" in pc["history"]
        chk.ok(cid, nontrivial=nontrivial, outcome=f"rows={len(model)}", sample={"case": pc, "table": rows[:5]})
    # ordered scan at the end of the full history
    oc = dict(case, query="order by k")
    ocid = core.case_id(oc)
    o = res[i]
    if not U.is_rows(o):
        chk.fail(ocid, "ordered-scan:" + U.status(o), oc, o)
    else:
        rows = U.decode(o)
        if U.mset(rows) != U.mset(model):
            chk.fail(ocid, "ordered-scan-rows-differ", oc, {"got": rows, "model": model})
        elif not U.is_sorted(rows, [(0, False)]):
            chk.fail(ocid, "ordered-scan-unsorted", oc, {"got": rows})
        else:
            chk.ok(ocid, nontrivial=len(rows) > 1, outcome="ordered-ok")
    return trans + 1


def run(tier, seed):
    d = depth(tier)
    chk = core.Check("C07", tier, "model_checking",
                     f"all {len(OPS)}^{d} histories of depth {d} from the empty table and all {len(OPS)}^{d - 1} histories of depth {d - 1} from the churned start state {CHURN} (disk) (every prefix judged once) over ops {OPS}, plus all histories of depth {d - 1} containing the 40-row batch IB over {BIGOPS} (a row-set of several blocks; deletes covering whole blocks of it) x {{pk, no pk}} x "
                     "{memory (no C/R), disk layouts}; oracle after every step: multiset(select *) == plain-list model, reported "
                     "DML count == model count; final ORDER BY k scan sorted and complete. non-trivial = history contains a delete, compaction or reopen",
                     seed)
    cs = list(cases(tier))
    res = runner.run_many("sql", [build(c) for c in cs], timeout=120, progress=5000)
    seen, states, trans = set(), set(), 0
    for c, r in zip(cs, res):
        trans += judge(chk, c, r, seen, states)
    chk.extra.update(states=len(states), transitions=trans, traces_validated_against_impl=len(cs),
                     histories=len(cs), distinct_prefixes=len(seen))
    chk.assumptions += ["single session; forced compaction = one pass of the real compactor (paused clock); vacuum runs whenever the engine triggers it",
                        "reopen = clean shutdown + Database::new_on_disk on the same directory"]
    return chk


def replay(path):
    d = json.load(open(path))
    case = {k: d["case"][k] for k in ("pk", "engine", "layout", "history")}
    print(json.dumps(runner.run_many("sql", [build(case)])[0], indent=1))
    return 0
