"""C19 — values of every type compare, hash and print coherently.
Exhaustive enumeration over a boundary value set V_T per type (all pairs and triples): the SQL operators = and < (evaluated
on all pairs through a cross join), ORDER BY, GROUP BY, DISTINCT, hash-join equality, MIN/MAX and - on disk - the storage
sort order of a primary key must all describe the SAME equivalence and the SAME total order; printing a value and
inserting the printed text back (implicit string -> T conversion) must give an equal value."""
import itertools, json
from lib import core, runner, sqlutil as U

V = {
    "int": ["-2147483648", "-1", "0", "1", "2147483647", "7"],
    "bigint": ["-9223372036854775808", "-1", "0", "9223372036854775807", "3000000000"],
    "smallint": ["-32768", "-1", "0", "32767"],
    "double": ["0.0", "-0.0", "1.5", "-1.5", "1000000.5", "-1000000.5", "0.1", "0.000001", "2.5", "cast('NaN' as double)", "cast('inf' as double)", "cast('-inf' as double)", "cast('nan' as double)"],
    "decimal(20,6)": ["1.0", "1.00", "1.5", "-1.5", "0", "0.00", "123456789.123", "-0.000001", "10", "9.999999"],
    "boolean": ["true", "false"],
    "varchar": ["''", "'a'", "'A'", "'ab'", "'b'", "' '", "'é'", "'z'", "'a '", "'10'", "'9'"],
    "date": ["date '1970-01-01'", "date '2024-02-29'", "date '2023-03-01'", "date '0001-01-01'", "date '9999-12-31'", "date '1969-12-31'",
             "date '9999-12-31' + interval '1' day", "date '9999-12-31' + interval '1' year"],      # years beyond four digits (printed with a sign)
    "timestamp": ["timestamp '1970-01-01 00:00:00'", "timestamp '2024-02-29 23:59:59'", "timestamp '1969-12-31 23:59:59'", "timestamp '2024-02-29 00:00:00'"],
    "interval": ["interval '1' day", "interval '2' day", "interval '1' month", "interval '30' day", "interval '-1' day", "interval '1' year", "interval '12' month", "interval '31' day",
                 "cast('1 hour' as interval)", "cast('3600 seconds' as interval)", "cast('1 day 1 second' as interval)", "cast('24 hours' as interval)"],
    "vector(3)": ["'[1,2,3]'", "'[0,0,0]'", "'[1,2,4]'", "'[-1,2,3]'", "'[1,2,3.0]'", "'[0.5,-0.0,1e3]'", "'[-0,0,0]'"],
    "blob": ["'\\x00'", "'\\xff'", "'\\x0000'", "'\\x61'", "'\\x6100'", "'a''b'", "'c\\d'", "'\\x5c27'"],
}
PK_OK = {"int", "bigint", "smallint", "varchar", "date"}


def script(ty, engine, pk):
    vals = V[ty]
    steps = [{"sql": f"create table v(id int, x {ty})"}, {"sql": f"create table w(id int, x {ty})"},
             {"sql": "select 1"}] + [{"sql": f"insert into v values ({i}, {lit})"} for i, lit in enumerate(vals)] + [
             {"sql": "select id, x from v order by id"},
             {"sql": "select l.id, r.id, l.x = r.x from v l, v r"},
             {"sql": "select id from v order by x, id"},
             {"sql": "select count(*), min(id) from v group by x"},
             {"sql": "select l.id, r.id from v l join v r on l.x = r.x"},
             {"sql": "select count(*) from (select distinct x from v) s"},
             {"sql": "select l.id from v l, (select min(x) as m from v) s where l.x = s.m"},
             {"sql": "select l.id from v l, (select max(x) as m from v) s where l.x = s.m"},
             {"sql": "select id from v order by x desc, id"},
             {"sql": "select l.id, r.id, l.x < r.x from v l, v r"}]
    return {"id": 0, "engine": engine, "opts": {"block": 64, "rowset": 1 << 20}, "steps": steps}, 3 + len(vals)


def roundtrip_script(ty, shown, engine):
    steps = [{"sql": f"create table v(id int, x {ty})"}, {"sql": f"create table w(id int, x {ty})"},
             {"sql": "select 1"}] + [{"sql": f"insert into v values ({i}, {lit})"} for i, lit in enumerate(V[ty])]
    base = len(steps)
    for i, d in enumerate(shown):
        steps.append({"sql": f"insert into w values ({i}, {U.sql_lit(d)})"})
    steps.append({"sql": "select v.id from v join w on v.id = w.id where v.x = w.x"})
    steps.append({"sql": "select id, x from w order by id"})
    return {"id": 0, "engine": engine, "steps": steps}, base


def pk_script(ty):
    vals = V[ty]
    steps = [{"sql": f"create table k(x {ty} primary key, id int)"}]
    # two inserts in scrambled order -> two row-sets, merged scan + compaction must follow the same order as ORDER BY
    half = len(vals) // 2
    order = list(range(len(vals)))[::-1]
    steps.append({"sql": "insert into k values " + ", ".join(f"({vals[i]}, {i})" for i in order[:half])})
    steps.append({"sql": "insert into k values " + ", ".join(f"({vals[i]}, {i})" for i in order[half:])})
    steps.append({"sql": "select id, x from k"})
    steps.append({"op": "compact"})
    steps.append({"sql": "select id, x from k"})
    return {"id": 0, "engine": "disk", "opts": {"block": 64, "rowset": 1 << 20}, "steps": steps}


def run(tier, seed):
    chk = core.Check("C19", tier, "exploration",
                     "for each of 11 types a boundary value set V_T (5-11 values: extremes, -0.0, decimals differing only in scale, leap dates, equal intervals written differently, blobs): all pairs/triples for "
                     "equivalence and total-order laws of the SQL operators; agreement of =, <, ORDER BY asc/desc, GROUP BY, DISTINCT, hash join, MIN/MAX on both engines; primary-key storage order on disk (2 row-sets, before/after compaction); "
                     "print -> insert-as-text round trip; for each ordered pair of integer types the six comparison operators and hash-join equality between columns of the two types against integer comparison (values beyond the narrower range included); a case = (type, engine, law); non-trivial = every case", seed)
    items = [(ty, engine) for ty in V for engine in ("mem", "disk")]
    built = [script(ty, e, False) for ty, e in items]
    res = runner.run_many("sql", [b[0] for b in built], timeout=120)
    shown_by = {}
    for (ty, engine), (_, q0), r in zip(items, built, res):
        base = {"type": ty, "engine": engine}
        tname = ty.split("(")[0]
        if r.get("abort"):
            chk.fail(core.case_id(base), "abort@" + tname, base, r)
            continue
        rs = r["results"]
        bad = [x for x in rs[:q0] if U.status(x) != "rows"]
        rs = rs[:3] + rs[q0:]
        if bad:
            chk.fail(core.case_id(dict(base, law="setup")), "values-rejected@" + tname, base, bad[0])
            continue

        def fail(law, detail):
            chk.fail(core.case_id(dict(base, law=law)), f"{law}@{tname}", dict(base, law=law), detail, outcome=law)

        def ok(law):
            chk.ok(core.case_id(dict(base, law=law)), outcome="law-holds", sample=dict(base, law=law))
        lt_ok = U.status(rs[12]) == "rows"
        if not lt_ok:
            fail("less-than-operator-fails", rs[12])
        st = [U.status(x) for x in rs[3:12]]
        if any(s != "rows" for s in st):
            i = [s != "rows" for s in st].index(True)
            fail("query-fails", {"step": 3 + i, "result": rs[3 + i]})
            continue
        shown = [row[1] for row in rs[3]["rows"]]
        shown_by[(ty, engine)] = shown
        n = len(V[ty])
        lt, eq = {}, {}
        for a, b, e in U.decode(rs[4]):
            eq[(a, b)] = e
        if lt_ok:
            for a, b, l in U.decode(rs[12]):
                lt[(a, b)] = l
        else:
            # no '<' operator: take the order from ORDER BY (ties = equal) so that the remaining laws are still checked
            seq0 = [x[0] for x in U.decode(rs[5])]
            pos = {i: p for p, i in enumerate(seq0)}
            for a in range(n):
                for b in range(n):
                    lt[(a, b)] = (not eq.get((a, b))) and pos[a] < pos[b]
        ids = range(n)
        # equivalence
        v = [(i,) for i in ids if eq.get((i, i)) is not True]
        fail("eq-not-reflexive", v) if v else ok("eq-reflexive")
        v = [(i, j) for i in ids for j in ids if eq.get((i, j)) != eq.get((j, i))]
        fail("eq-not-symmetric", v[:5]) if v else ok("eq-symmetric")
        v = [(i, j, k) for i in ids for j in ids for k in ids if eq.get((i, j)) and eq.get((j, k)) and not eq.get((i, k))]
        fail("eq-not-transitive", v[:5]) if v else ok("eq-transitive")
        # total order consistent with eq
        v = [(i, j) for i in ids for j in ids if i != j and sum([bool(lt.get((i, j))), bool(lt.get((j, i))), bool(eq.get((i, j)))]) != 1]
        fail("order-not-total-or-not-antisymmetric", v[:5]) if v else ok("order-total")
        v = [(i, j, k) for i in ids for j in ids for k in ids if lt.get((i, j)) and lt.get((j, k)) and not lt.get((i, k))]
        fail("lt-not-transitive", v[:5]) if v else ok("lt-transitive")
        # ORDER BY agrees with <
        seq = [x[0] for x in U.decode(rs[5])]
        v = [(seq[a], seq[b]) for a in range(len(seq)) for b in range(a + 1, len(seq)) if lt.get((seq[b], seq[a]))]
        fail("orderby-disagrees-with-lt", {"order": seq, "inversions": v[:5]}) if v or sorted(seq) != list(ids) else ok("orderby-agrees")
        dseq = [x[0] for x in U.decode(rs[11])]
        v = [(dseq[a], dseq[b]) for a in range(len(dseq)) for b in range(a + 1, len(dseq)) if lt.get((dseq[a], dseq[b]))]
        fail("orderby-desc-disagrees-with-lt", {"order": dseq, "inversions": v[:5]}) if v else ok("orderby-desc-agrees")
        # equivalence classes from '='
        classes = {}
        for i in ids:
            rep = min(j for j in ids if eq.get((i, j)) or i == j)
            classes.setdefault(rep, []).append(i)
        want_groups = sorted((len(m), min(m)) for m in classes.values())
        got_groups = sorted(U.decode(rs[6]))
        fail("groupby-disagrees-with-eq", {"groups": got_groups, "eq_classes": want_groups}) if got_groups != want_groups else ok("groupby-agrees")
        pairs = {(a, b) for a, b in U.decode(rs[7])}
        want_pairs = {(i, j) for i in ids for j in ids if eq.get((i, j))}
        fail("hashjoin-disagrees-with-eq", {"extra": sorted(pairs - want_pairs)[:5], "missing": sorted(want_pairs - pairs)[:5]}) if pairs != want_pairs else ok("join-agrees")
        nd = U.decode(rs[8])[0][0]
        fail("distinct-disagrees-with-eq", {"distinct": nd, "classes": len(classes)}) if nd != len(classes) else ok("distinct-agrees")
        mins = {x[0] for x in U.decode(rs[9])}
        maxs = {x[0] for x in U.decode(rs[10])}
        want_min = {i for i in ids if not any(lt.get((j, i)) for j in ids)}
        want_max = {i for i in ids if not any(lt.get((i, j)) for j in ids)}
        fail("min-max-disagree-with-lt", {"min": sorted(mins), "want_min": sorted(want_min), "max": sorted(maxs), "want_max": sorted(want_max)}) if (mins, maxs) != (want_min, want_max) else ok("minmax-agree")
    # ---- print / parse round trip
    rt = [(ty, e) for (ty, e) in shown_by if e == "mem"]
    built2 = [roundtrip_script(ty, shown_by[(ty, e)], e) for ty, e in rt]
    res2 = runner.run_many("sql", [b[0] for b in built2], timeout=120)
    for (ty, e), (_, b0), r in zip(rt, built2, res2):
        base = {"type": ty, "engine": e, "law": "parse(display(x)) == x"}
        tname = ty.split("(")[0]
        cid = core.case_id(base)
        if r.get("abort"):
            chk.fail(cid, "abort@" + tname, base, r)
            continue
        rs = r["results"]
        n = len(V[ty])
        rejected = [(shown_by[(ty, e)][i], rs[b0 + i]) for i in range(n) if U.status(rs[b0 + i]) != "rows"]
        if rejected:
            chk.fail(cid, "printed-value-not-parsable@" + tname, base, {"printed": rejected[0][0], "result": rejected[0][1]}, outcome="unparsable")
            continue
        same = {x[0] for x in U.decode(rs[-2])} if U.is_rows(rs[-2]) else set()
        if same != set(range(n)):
            chk.fail(cid, "roundtrip-value-differs@" + tname, base, {"differing_ids": sorted(set(range(n)) - same), "printed": shown_by[(ty, e)], "reparsed": rs[-1]}, outcome="roundtrip")
        else:
            chk.ok(cid, outcome="roundtrip-ok", sample=base)
    # ---- storage order of a primary key follows the same order
    pks = [ty for ty in V if ty in PK_OK]
    res3 = runner.run_many("sql", [pk_script(ty) for ty in pks], timeout=120)
    mem_order = {}
    built4 = [script(ty, "mem", False) for ty in pks]
    res4 = runner.run_many("sql", [b[0] for b in built4], timeout=120)
    for ty, (_, q0), r in zip(pks, built4, res4):
        if not r.get("abort") and U.is_rows(r["results"][q0 + 2]):
            mem_order[ty] = [x[0] for x in U.decode(r["results"][q0 + 2])]
    for ty, r in zip(pks, res3):
        base = {"type": ty, "engine": "disk", "law": "pk storage order == ORDER BY"}
        cid = core.case_id(base)
        if r.get("abort") or any(U.status(x) not in ("rows", "ok") for x in r["results"]):
            chk.fail(cid, "pk-table-fails@" + ty, base, r.get("results", r))
            continue
        before = [x[0] for x in U.decode(r["results"][3])]
        after = [x[0] for x in U.decode(r["results"][5])]
        want = mem_order.get(ty)
        if before != want or after != want:
            chk.fail(cid, "pk-storage-order-differs@" + ty, base, {"orderby": want, "scan": before, "scan_after_compaction": after}, outcome="pk-order")
        else:
            chk.ok(cid, outcome="pk-order-agrees", sample=base)
    # ---- integers of different widths: the six comparison operators, in both orientations, and hash-join equality between a
    # column of type T1 and a column of type T2 must be the comparison of the mathematical integers (values beyond the narrower
    # type's range included: a kernel that narrows instead of widening wraps them)
    ints = ["smallint", "int", "bigint"]
    extra = {"smallint": ["1", "5"], "int": ["32768", "65536", "-32769", "65541"], "bigint": ["32768", "65536", "4294967296", "-4294967291", "2147483648", "-2147483649", "1", "5", "65541"]}
    xitems, xscripts = [], []
    for t1, t2 in itertools.permutations(ints, 2):
        for engine in ("mem", "disk"):
            a, b = V[t1] + extra[t1], V[t2] + extra[t2]
            steps = [{"sql": f"create table v(id int, x {t1})"}, {"sql": f"create table w(id int, y {t2})"},
                     {"sql": "insert into v values " + ", ".join(f"({i}, {lit})" for i, lit in enumerate(a))},
                     {"sql": "insert into w values " + ", ".join(f"({i}, {lit})" for i, lit in enumerate(b))},
                     {"sql": "select l.id, r.id, l.x = r.y, l.x <> r.y, l.x < r.y, l.x <= r.y, l.x > r.y, l.x >= r.y from v l, w r"},
                     {"sql": "select l.id, r.id from v l join w r on l.x = r.y"}]
            xitems.append((t1, t2, engine, a, b))
            xscripts.append({"id": 0, "engine": engine, "opts": {"block": 64, "rowset": 1 << 20}, "steps": steps})
    for (t1, t2, engine, a, b), r in zip(xitems, runner.run_many("sql", xscripts, timeout=120)):
        base = {"type": f"{t1} x {t2}", "engine": engine, "law": "mixed-width comparison == integer comparison"}
        cid = core.case_id(base)
        if r.get("abort") or any(U.status(x) != "rows" for x in r["results"]):
            chk.fail(cid, f"mixed-width-comparison-fails@{t1}+{t2}", base, r.get("results", r))
            continue
        ia, ib = [int(x) for x in a], [int(x) for x in b]
        wrong = []
        for row in U.decode(r["results"][4]):
            x, y = ia[row[0]], ib[row[1]]
            want = (x == y, x != y, x < y, x <= y, x > y, x >= y)
            if tuple(row[2:]) != want:
                wrong.append({"x": x, "y": y, "= <> < <= > >=": list(row[2:]), "want": list(want)})
        joined = sorted((ia[i], ib[j]) for i, j in U.decode(r["results"][5]))
        wantj = sorted((x, y) for x in ia for y in ib if x == y)
        if wrong:
            chk.fail(cid, f"mixed-width-comparison-wrong@{t1}+{t2}", base, wrong[:6], outcome="mixed-width")
        elif joined != wantj:
            chk.fail(cid, f"mixed-width-join-equality-wrong@{t1}+{t2}", base, {"joined": joined[:8], "want": wantj[:8]}, outcome="mixed-width")
        else:
            chk.ok(cid, outcome="mixed-width-agrees", sample=base)
    chk.assumptions += ["NaN and infinities are not in the double domain (no literal syntax reaches them); vectors are excluded (no ordering defined)"]
    return chk


def replay(path):
    d = json.load(open(path))
    c = d["case"]
    r = runner.run_many("sql", [script(c["type"], c["engine"], False)[0]])[0]
    print(json.dumps(r)[:4000])
    return 0
