"""C13 — a key-range scan returns exactly the rows in the range.
Exhaustive small-scope enumeration: tables whose primary key sits at column position 0/1/2 and has type
INT/BIGINT/SMALLINT/VARCHAR/DATE, contents with duplicate keys straddling 64-byte blocks, 1-2 row-sets, deleted rows,
with/without recorded first keys, plus one 5000-row table with default blocks (2048-row batches); for every bound kind
(=,<,<=,>,>=, two-sided), every interesting constant (below all, block boundaries +-1, duplicates, absent, above all),
residual predicates and select-list orders. Oracle: rows computed in Python from the known contents (independent of
the engine), and equality with the same query run with the optimizer disabled (no pushdown)."""
import itertools, json
from lib import core, runner, sqlutil as U

def _day(k):
    """the k-th day after 2024-01-10 (k may be negative: constants below every key)"""
    import datetime
    return (datetime.date(2024, 1, 10) + datetime.timedelta(days=k)).isoformat()


KEYTYPES = {
    "int": ("int", lambda k: k, lambda k: str(k)),
    "bigint": ("bigint", lambda k: k, lambda k: str(k)),
    "smallint": ("smallint", lambda k: k, lambda k: str(k)),
    "varchar": ("varchar", lambda k: f"k{k:03d}", lambda k: f"'k{k:03d}'"),
    "date": ("date", lambda k: _day(k), lambda k: f"date '{_day(k)}'"),
}
# keys: duplicates around positions 15/16/17 (block boundary for 4-byte keys), gaps (odd keys absent above 40)
KEYS1 = [0, 1, 2, 3, 4, 5, 6, 7, 8, 9, 10, 11, 12, 13, 14, 15, 15, 15, 16, 17, 18, 20, 20, 22, 24, 26, 28, 30, 31, 31, 31, 31, 32, 33, 34, 36, 38, 40, 42, 44, 46, 48, 50]
KEYS2 = [5, 15, 16, 16, 25, 35, 45, 55, 60, 61]
# duplicate keys that straddle EVERY block boundary whatever the block capacity is (a 64-byte block holds 12 INT keys, not
# 16: the duplicates of KEYS1 never straddled a boundary, and a seek that lands on the first block STARTING with the key
# went unnoticed): every key twice starting at even / at odd positions, every key three times, and runs longer than a block
KEYSETS = {
    "base": KEYS1,
    "pairs-even": [i // 2 for i in range(64)],
    "pairs-odd": [0] + [1 + i // 2 for i in range(63)],
    "triples": [i // 3 for i in range(66)],
    "runs": list(range(10)) + [14] * 30 + [15, 16, 17] + [20] * 14 + [31, 32, 50],
}
CONSTS = [-1, 0, 1, 14, 15, 16, 17, 19, 20, 31, 32, 41, 50, 55, 61, 62, 99]
OPS = ["=", "<", "<=", ">", ">="]
LAYOUTS = [{"block": 64, "rowset": 1 << 20}, {"block": 16384, "rowset": 1 << 20}, {"block": 64, "rowset": 1 << 20, "first_key": False}]


def table_sql(pos, ktype):
    cols = ["v int", "s varchar"]
    cols.insert(pos, f"k {KEYTYPES[ktype][0]} primary key")
    return "create table t(" + ", ".join(cols) + ")"


def rows_for(keys, base):
    return [(k, (k * 7 + base) % 11, f"s{k % 3}") for k in keys]


def insert_sql(pos, ktype, rows):
    lit = KEYTYPES[ktype][2]
    vals = []
    for k, v, s in rows:
        c = [str(v), f"'{s}'"]
        c.insert(pos, lit(k))
        vals.append("(" + ", ".join(c) + ")")
    return "insert into t values " + ", ".join(vals)


def preds(tier):
    out = []
    for op in OPS:
        for c in CONSTS:
            out.append((f"k {op} {{c}}", [(op, c)], None, c))
    for c1, c2 in [(0, 16), (15, 17), (15, 31), (14, 15), (16, 16), (31, 50), (40, 99), (-1, 0), (20, 19)]:
        out.append((f"k > {{c1}} and k < {{c2}}", [(">", c1), ("<", c2)], None, (c1, c2)))
        out.append((f"k >= {{c1}} and k <= {{c2}}", [(">=", c1), ("<=", c2)], None, (c1, c2)))
    for op, c in [(">=", 15), ("<", 31), ("=", 15), (">", 16)]:
        out.append((f"k {op} {{c}} and v > 4", [(op, c)], "v>4", c))
        out.append((f"v > 4 and k {op} {{c}}", [(op, c)], "v>4", c))
    # residual range predicates on another column, bounded on the same and on the opposite side as the key bound (the range
    # analysis must keep ranges of different columns apart), in both operand orders
    for op, c in [(">=", 15), ("<", 31), (">", 16), ("<=", 20)]:
        for resid in RESIDUALS:
            if resid == "v>4":
                continue
            out.append((f"k {op} {{c}} and {RESIDUALS[resid][0]}", [(op, c)], resid, c))
            out.append((f"{RESIDUALS[resid][0]} and k {op} {{c}}", [(op, c)], resid, c))
    # bounds whose constant has another numeric type than the key (narrower / wider integers, a fraction): integer keys only
    for op, c in [("<=", 20), ("<", 31), (">=", 15), (">", 16), ("=", 15)]:
        for ty in ("smallint", "bigint", "int"):
            out.append((f"k {op} cast({{c}} as {ty})", [(op, c)], None, c))
    out.append(("k >= cast({c1} as smallint) and k <= cast({c2} as smallint)", [(">=", 15), ("<=", 31)], None, (15, 31)))
    out.append(("k > {c1} and k < cast({c2} as bigint)", [(">", 14), ("<", 32)], None, (14, 32)))
    out.append(("k <= {c} + 0.5", [("<=", 20)], None, 20))
    out.append(("k > {c} - 0.5", [(">", 15.5)], None, 16))
    out.append(("k > {c1} and k < {c2} and v >= 2 and v < 8", [(">", 14), ("<", 32)], "2<=v<8", (14, 32)))
    out.append(("v >= 2 and k > {c1} and v < 8 and k < {c2}", [(">", 14), ("<", 32)], "2<=v<8", (14, 32)))
    for c in [15, 31, 50]:
        out.append((f"{{c}} < k", [(">", c)], None, c))
        out.append((f"{{c}} >= k", [("<=", c)], None, c))
    return out


RESIDUALS = {
    "v>4": ("v > 4", lambda v: v > 4), "v<5": ("v < 5", lambda v: v < 5), "v>=7": ("v >= 7", lambda v: v >= 7), "v<=3": ("v <= 3", lambda v: v <= 3),
    "v=6": ("v = 6", lambda v: v == 6), "2<=v<8": ("v >= 2 and v < 8", lambda v: 2 <= v < 8),
}


def holds(k, conds):
    for op, c in conds:
        if not {"=": k == c, "<": k < c, "<=": k <= c, ">": k > c, ">=": k >= c}[op]:
            return False
    return True


SELECTS = [("k, v", (0, 1)), ("v, k", (1, 0)), ("s", (2,)), ("*", None)]


def cases(tier):
    ktypes = ["int", "bigint", "varchar"] if tier == "quick" else list(KEYTYPES)
    for pos in (0, 1, 2):
        for ktype in ktypes:
            if tier == "quick" and ktype != "int" and pos != 0:
                continue
            for li, layout in enumerate(LAYOUTS):
                if tier == "quick" and li == 2 and not (pos == 0 and ktype == "int"):
                    continue
                for shape in ("one-rowset", "two-rowsets", "two-rowsets+delete"):
                    yield {"pos": pos, "ktype": ktype, "layout": layout, "shape": shape}
                    for ks in KEYSETS:
                        if ks == "base" or (tier == "quick" and (shape == "two-rowsets" or (ktype != "int" and ks != "pairs-odd"))):
                            continue
                        yield {"pos": pos, "ktype": ktype, "layout": layout, "shape": shape, "keys": ks}


def build(case, tier):
    pos, ktype = case["pos"], case["ktype"]
    lit, val = KEYTYPES[ktype][2], KEYTYPES[ktype][1]
    steps = [{"sql": table_sql(pos, ktype)}]
    rows = rows_for(KEYSETS[case.get("keys", "base")], 0)
    steps.append({"sql": insert_sql(pos, ktype, rows)})
    if case["shape"] != "one-rowset":
        r2 = rows_for(KEYS2, 3)
        steps.append({"sql": insert_sql(pos, ktype, r2)})
        rows = rows + r2
    if case["shape"].endswith("delete"):
        steps.append({"sql": "delete from t where v = 3"})
        rows = [r for r in rows if r[1] != 3]
    nsetup = len(steps)
    qs = []
    for (tmpl, conds, resid, cc) in preds(tier):
        if ("cast(" in tmpl or "0.5" in tmpl) and ktype not in ("int", "bigint", "smallint"):
            continue
        if isinstance(cc, tuple):
            where = tmpl.format(c1=lit(cc[0]), c2=lit(cc[1]))
        else:
            where = tmpl.format(c=lit(cc))
        for sel, idx in SELECTS:
            if tier == "quick" and sel in ("s", "*") and (resid or isinstance(cc, tuple)):
                continue
            sql = f"select {sel} from t where {where}"
            want = [r for r in rows if holds(r[0], conds) and (resid is None or RESIDUALS[resid][1](r[1]))]
            qs.append((sql, idx, want))
    steps += [{"sql": q[0]} for q in qs]
    steps.append({"sql": "pragma disable_optimizer"})
    steps += [{"sql": q[0]} for q in qs]
    return {"id": 0, "engine": "disk", "opts": case["layout"], "steps": steps}, nsetup, qs


def project(case, rows, idx):
    pos, val = case["pos"], KEYTYPES[case["ktype"]][1]
    out = []
    for k, v, s in rows:
        full = [v, s]
        full.insert(pos, val(k))
        if idx is None:
            out.append(tuple(full))
        else:
            logical = (val(k), v, s)
            out.append(tuple(logical[i] for i in idx))
    return U.srt(out)


def judge(chk, case, nsetup, qs, r):
    if r.get("abort"):
        chk.fail(core.case_id(case), "abort", case, r)
        return
    rs = r["results"]
    bad = [x for x in rs[:nsetup] if U.status(x) != "rows"]
    if bad:
        chk.fail(core.case_id(dict(case, sql="<setup>")), "setup:" + U.status(bad[0]), case, bad[0])
        return
    n = len(qs)
    on, off = rs[nsetup:nsetup + n], rs[nsetup + n + 1:nsetup + 2 * n + 1]
    tag = f"pos{case['pos']}:{case['ktype']}" + ("" if case["layout"].get("first_key", True) else ":nofirstkey")
    for (sql, idx, want), a, b in zip(qs, on, off):
        c = dict(case, sql=sql)
        cid = core.case_id(c)
        w = project(case, want, idx)
        st = U.status(a)
        if st != "rows":
            chk.fail(cid, f"range-scan-fails:{st.split(':')[0]}@{tag}", c, a, outcome="fails")
            continue
        got = U.srt(U.decode(a))
        if got != w:
            lost = len(U.mset(w) - U.mset(got))
            extra = len(U.mset(got) - U.mset(w))
            kind = "rows-missing" if lost and not extra else "rows-extra" if extra and not lost else "rows-differ"
            chk.fail(cid, f"{kind}@{tag}", c, {"got": got[:12], "want": w[:12], "n_got": len(got), "n_want": len(w)}, outcome=kind)
            continue
        if U.status(b) == "rows" and U.srt(U.decode(b)) != w:
            chk.fail(cid, f"full-scan-reference-differs@{tag}", c, {"unoptimised": b["rows"][:10], "want": w[:10]}, outcome="reference-differs")
            continue
        chk.ok(cid, nontrivial=0 < len(w), outcome=f"rows={min(len(w), 9)}", sample={"case": c, "rows": len(w)})


def big_case(tier):
    """5000 unique keys in one insert, default block size: batches of 2048 rows inside 4096-row blocks."""
    n = 5000
    rows = [(3 * i, i % 9, f"s{i % 3}") for i in range(n)]
    steps = [{"sql": "create table t(k int primary key, v int, s varchar)"},
             {"sql": "insert into t values " + ",".join(f"({k},{v},'{s}')" for k, v, s in rows)}]
    qs = []
    consts = [0, 3, 6141, 6142, 6143, 6144, 6147, 12285, 12288, 12291, 9000, 14997, 14998, 15000]
    for op in OPS:
        for c in consts:
            want = [(r[0],) for r in rows if holds(r[0], [(op, c)])]
            qs.append((f"select count(*), min(k), max(k) from t where k {op} {c}", want))
    steps += [{"sql": q[0]} for q in qs]
    return {"id": 0, "engine": "disk", "opts": {"block": 16384, "rowset": 1 << 24}, "steps": steps}, 2, qs


def run(tier, seed):
    chk = core.Check("C13", tier, "exploration",
                     "pk position {0,1,2} x key type x layout (64-byte / 16K blocks, with/without recorded first keys) x {1 row-set, 2 row-sets, 2 row-sets + deleted rows} x 5 key sets (gaps and duplicates; every key twice from even / odd positions and three times, so that duplicates straddle every block boundary; runs longer than a block) x "
                     "all predicates (5 operators x 17 constants incl. duplicates at block boundaries and absent keys; two-sided ranges; residual predicates; reversed operands) x 4 select lists; "
                     "plus a 5000-row single-row-set table probed around the 2048-row batch boundaries; oracle: rows computed from the known contents; a case = (table config, query); non-trivial = expected result non-empty", seed)
    cs = list(cases(tier))
    built = [build(c, tier) for c in cs]
    big = big_case(tier)
    res = runner.run_many("sql", [b[0] for b in built] + [big[0]], timeout=600, progress=20)
    for c, (s, nsetup, qs), r in zip(cs, built, res):
        judge(chk, c, nsetup, qs, r)
    # big table
    r = res[-1]
    bc = {"table": "big-5000"}
    if r.get("abort"):
        chk.fail(core.case_id(bc), "abort", bc, r)
    else:
        for (sql, want), a in zip(big[2], r["results"][2:]):
            c = dict(bc, sql=sql)
            cid = core.case_id(c)
            if U.status(a) != "rows":
                chk.fail(cid, "range-scan-fails:" + U.status(a).split(":")[0] + "@big", c, a)
                continue
            got = U.decode(a)[0]
            w = (len(want), min(x[0] for x in want) if want else None, max(x[0] for x in want) if want else None)
            if tuple(got) != w:
                chk.fail(cid, "rows-differ@big", c, {"got": got, "want": w})
            else:
                chk.ok(cid, nontrivial=len(want) > 0, outcome="big-ok")
    chk.assumptions += ["range pushdown happens only with the optimizer enabled on the disk engine; the unoptimised run is a second, engine-internal reference"]
    chk.extra.update(table_configs=len(cs))
    return chk


def replay(path):
    d = json.load(open(path))
    c = d["case"]
    if "table" in c:
        s = big_case("thorough")[0]
        s["steps"] = s["steps"][:2] + [{"sql": c["sql"]}, {"sql": "explain " + c["sql"]}]
    else:
        case = {k: c[k] for k in ("pos", "ktype", "layout", "shape")}
        s, nsetup, qs = build(case, "thorough")
        s["steps"] = s["steps"][:nsetup] + [{"sql": c["sql"]}, {"sql": "explain " + c["sql"]}, {"sql": "pragma disable_optimizer"}, {"sql": c["sql"]}]
    print(json.dumps(runner.run_many("sql", [s])[0]["results"][-4:])[:3000])
    return 0
