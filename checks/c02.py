"""C02 — query answers follow standard SQL semantics on the core relational subset.
Every query of the qgen corpus flagged sqlite-compatible x every database x {memory, disk with several row-sets}
(optimizer on, whichever physical plan is chosen) is compared with SQLite 3.40 (python3 sqlite3, independent
implementation) on identical schema and data: multiset equality, key-sequence equality under ORDER BY."""
import json, sqlite3
from lib import core, runner, sqlutil as U, qgen

ENGINES = [("mem", None, False), ("disk", {"block": 64, "rowset": 1 << 20}, True)]
CHUNK = 150


def sqlite_run(schema, tables, qs):
    con = sqlite3.connect(":memory:")
    for s in qgen.setup_sql(schema, tables, False):
        con.execute(s)
    out = []
    for x in qs:
        try:
            out.append(("rows", [tuple(r) for r in con.execute(x["sql"]).fetchall()]))
        except sqlite3.Error as e:
            out.append(("err", str(e)))
    con.close()
    return out


def conv(rows):
    return [tuple(int(v) if isinstance(v, bool) else v for v in r) for r in rows]


# ---- aggregates over every numeric column type (the qgen schemas only have INT columns)
NUM_SETUP = ["create table n(g int, si smallint, bi bigint, d double)",
             "insert into n values (1, 1, 10000000000, 1.5), (1, 2, 20000000000, 2.5), (2, 3, 1, 0.5)",
             "insert into n values (2, null, null, null), (1, -5, -7, -1.5), (3, null, null, null)",
             "insert into n values (2, 7, 9, 4.0), (4, 1, 1, 1.0)"]


def typed_queries():
    qs = []
    for col in ("si", "bi", "d", "g"):
        for agg in ("sum", "min", "max", "count"):
            qs.append(f"select {agg}({col}) from n")
            qs.append(f"select g, {agg}({col}) from n group by g")
            qs.append(f"select g, {agg}({col}) from n where g < 3 group by g")
            qs.append(f"select {agg}({col}) from n where g > 100")
            qs.append(f"select g, {col}, {agg}({col}) over (partition by g) from n")
        qs.append(f"select count(distinct {col}) from n")
        qs.append(f"select g, sum({col}), count({col}), min({col}), max({col}) from n group by g")
        qs.append(f"select sum({col} + 1), sum({col} * 2) from n")
    qs.append("select sum(si), sum(bi), sum(d) from n")
    qs.append("select g, sum(si + bi), max(d + si) from n group by g")
    return qs


def numrow(r):
    out = []
    for v in r:
        if isinstance(v, bool):
            v = int(v)
        if v is not None:
            try:
                v = round(float(v), 9)
            except (TypeError, ValueError):
                pass
        out.append(v)
    return tuple(out)


def typed_aggregates(chk):
    qs = typed_queries()
    con = sqlite3.connect(":memory:")
    for s_ in NUM_SETUP:
        con.execute(s_)
    refs = []
    for q in qs:
        try:
            refs.append([tuple(r) for r in con.execute(q).fetchall()])
        except sqlite3.Error:
            refs.append(None)
    con.close()
    scripts = [{"id": 0, "engine": e, "opts": o or {}, "steps": [{"sql": x} for x in NUM_SETUP + qs]} for (e, o, _) in ENGINES]
    for (e, o, _), r in zip(ENGINES, runner.run_many("sql", scripts, timeout=120)):
        meta = {"db": "typed:n", "engine": e, "layout": o}
        if r.get("abort"):
            chk.fail(core.case_id(dict(meta, sql="<all>")), "abort", meta, r)
            continue
        for q, got, ref in zip(qs, r["results"][len(NUM_SETUP):], refs):
            c = dict(meta, sql=q)
            cid = core.case_id(c)
            st = U.status(got)
            if ref is None:
                chk.skip("reference-rejects")
            elif st in ("err:bind", "err:parse"):
                chk.skip("risinglight-rejects-at-bind")
            elif st != "rows":
                chk.fail(cid, "no-answer:" + st.split(":")[0] + ("@window" if " over (" in q else "@typed-agg"), c, {"risinglight": got, "sqlite": ref})
            else:
                a, b = U.mset([numrow(x) for x in U.decode(got)]), U.mset([numrow(x) for x in ref])
                if a != b:
                    chk.fail(cid, "rows-differ" + ("@window" if " over (" in q else "@typed-agg"), c, {"risinglight": U.decode(got), "sqlite": ref})
                else:
                    chk.ok(cid, nontrivial=len(ref) > 0, outcome=f"rows={min(len(ref), 5)}", sample={"case": c, "rows": ref[:3]})


def run(tier, seed):
    chk = core.Check("C02", tier, "exploration",
                     "qgen corpus restricted to constructs on which SQLite and risinglight define the same answer (see checks/dialect.md) x all "
                     "databases x {memory, disk with several row-sets}, optimizer on; plus 90 aggregate / GROUP BY / window queries over SMALLINT, BIGINT, DOUBLE and INT columns with NULLs in several chunks; reference = SQLite 3.40 on identical schema/data; "
                     "a case = (db, engine, sql); non-trivial = reference result non-empty", seed)
    qs = [x for x in qgen.queries(tier) if x["sqlite"] and x["det"]]
    items = []
    for (dbname, schema, tables) in qgen.databases(tier):
        ref = sqlite_run(schema, tables, qs)
        for (engine, layout, split) in ENGINES:
            setup = [{"sql": s} for s in qgen.setup_sql(schema, tables, split)]
            for off in range(0, len(qs), CHUNK):
                chunk = qs[off:off + CHUNK]
                steps = setup + [{"sql": x["sql"]} for x in chunk]
                items.append(({"id": 0, "engine": engine, "opts": layout or {}, "steps": steps},
                              {"db": dbname, "engine": engine, "layout": layout}, len(setup), chunk, ref[off:off + CHUNK]))
    res = runner.run_many("sql", [it[0] for it in items], timeout=300, progress=200)
    for (script, meta, nsetup, chunk, refs), r in zip(items, res):
        if r.get("abort"):
            chk.fail(core.case_id(dict(meta, sql="<chunk>", first=chunk[0]["sql"])), "abort", meta, r)
            continue
        rs = r["results"]
        bad = [x for x in rs[:nsetup] if U.status(x) not in ("rows", "ok")]
        if bad:
            chk.fail(core.case_id(dict(meta, sql="<setup>")), "setup:" + U.status(bad[0]), meta, bad[0])
            continue
        for x, got, (rk, rv) in zip(chunk, rs[nsetup:], refs):
            c = dict(meta, sql=x["sql"])
            cid = core.case_id(c)
            st = U.status(got)
            if rk == "err":
                chk.skip("reference-rejects")
                continue
            if st in ("err:bind", "err:parse"):
                chk.skip("risinglight-rejects-at-bind")
                continue
            if st != "rows":
                chk.fail(cid, "no-answer:" + st.split(":")[0] + "@" + x["feat"][0], c, {"risinglight": got, "sqlite": rv})
                continue
            rows = [numrow(x) for x in U.decode(got)]
            rv = [numrow(x) for x in rv]
            if not qgen.determined(x, meta["db"]):
                if len(rows) != len(rv):
                    chk.fail(cid, "rows-differ@" + x["feat"][0], c, {"risinglight": rows, "sqlite": rv})
                else:
                    chk.ok(cid, nontrivial=len(rv) > 0, outcome="count-only", sample={"case": c, "rows": rv[:3]})
                continue
            if U.mset(rows) != U.mset(rv):
                chk.fail(cid, "rows-differ@" + x["feat"][0], c, {"risinglight": rows, "sqlite": rv})
                continue
            if qgen.seq_applies(x, meta["db"]) and rows != rv:
                chk.fail(cid, "order-differs@" + x["feat"][0], c, {"risinglight": rows, "sqlite": rv})
                continue
            if x["okeys"]:
                ka = [tuple(r[i] for i, _ in x["okeys"]) for r in rows]
                kb = [tuple(r[i] for i, _ in x["okeys"]) for r in rv]
                if ka != kb:
                    chk.fail(cid, "order-differs@" + x["feat"][0], c, {"risinglight": rows, "sqlite": rv})
                    continue
            chk.ok(cid, nontrivial=len(rv) > 0, outcome=f"rows={min(len(rv), 5)}", sample={"case": c, "rows": rv[:3]})
    chk.assumptions += ["SQLite 3.40 is the reference for the subset listed in checks/dialect.md; NULLs sort first in both",
                        "queries risinglight rejects at bind time are counted as unsupported, not as wrong answers"]
    chk.extra.update(queries=len(qs), databases=len(qgen.databases(tier)))
    return chk


def replay(path):
    d = json.load(open(path))
    c = d["case"]
    for (dbname, schema, tables) in qgen.databases("thorough"):
        if dbname == c["db"]:
            split = c["engine"] == "disk"
            steps = [{"sql": s} for s in qgen.setup_sql(schema, tables, split)] + [{"sql": c["sql"]}, {"sql": "explain " + c["sql"]}]
            out = runner.run_many("sql", [{"id": 0, "engine": c["engine"], "opts": c["layout"] or {}, "steps": steps}])[0]
            print(json.dumps(out["results"][-2:])[:3000])
            print("sqlite:", sqlite_run(schema, tables, [{"sql": c["sql"]}]))
            return 0
    return 2
