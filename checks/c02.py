"""C02 — query answers follow standard SQL semantics on the core relational subset.
Every query of the qgen corpus flagged sqlite-compatible x every database x {memory, disk with several row-sets}
(optimizer on, whichever physical plan is chosen) is compared with SQLite 3.40 (python3 sqlite3, independent
implementation) on identical schema and data: multiset equality, key-sequence equality under ORDER BY."""
import json, sqlite3
from lib import core, runner, sqlutil as U, qgen

ENGINES = [("mem", None, False), ("disk", {"block": 64, "rowset": 1 << 20}, True)]
CHUNK = 150


def sqlite_run(schema, tables, qs):
    con = sqlite3.connect(":memory:")
    for s in qgen.setup_sql(schema, tables, False):
        con.execute(s)
    out = []
    for x in qs:
        try:
            out.append(("rows", [tuple(r) for r in con.execute(x["sql"]).fetchall()]))
        except sqlite3.Error as e:
            out.append(("err", str(e)))
    con.close()
    return out


def conv(rows):
    return [tuple(int(v) if isinstance(v, bool) else v for v in r) for r in rows]


def run(tier, seed):
    chk = core.Check("C02", tier, "exploration",
                     "qgen corpus restricted to constructs on which SQLite and risinglight define the same answer (see checks/dialect.md) x all "
                     "databases x {memory, disk with several row-sets}, optimizer on; reference = SQLite 3.40 on identical schema/data; "
                     "a case = (db, engine, sql); non-trivial = reference result non-empty", seed)
    qs = [x for x in qgen.queries(tier) if x["sqlite"] and x["det"]]
    items = []
    for (dbname, schema, tables) in qgen.databases(tier):
        ref = sqlite_run(schema, tables, qs)
        for (engine, layout, split) in ENGINES:
            setup = [{"sql": s} for s in qgen.setup_sql(schema, tables, split)]
            for off in range(0, len(qs), CHUNK):
                chunk = qs[off:off + CHUNK]
                steps = setup + [{"sql": x["sql"]} for x in chunk]
                items.append(({"id": 0, "engine": engine, "opts": layout or {}, "steps": steps},
                              {"db": dbname, "engine": engine, "layout": layout}, len(setup), chunk, ref[off:off + CHUNK]))
    res = runner.run_many("sql", [it[0] for it in items], timeout=300, progress=200)
    for (script, meta, nsetup, chunk, refs), r in zip(items, res):
        if r.get("abort"):
            chk.fail(core.case_id(dict(meta, sql="<chunk>", first=chunk[0]["sql"])), "abort", meta, r)
            continue
        rs = r["results"]
        bad = [x for x in rs[:nsetup] if U.status(x) not in ("rows", "ok")]
        if bad:
            chk.fail(core.case_id(dict(meta, sql="<setup>")), "setup:" + U.status(bad[0]), meta, bad[0])
            continue
        for x, got, (rk, rv) in zip(chunk, rs[nsetup:], refs):
            c = dict(meta, sql=x["sql"])
            cid = core.case_id(c)
            st = U.status(got)
            if rk == "err":
                chk.skip("reference-rejects")
                continue
            if st in ("err:bind", "err:parse"):
                chk.skip("risinglight-rejects-at-bind")
                continue
            if st != "rows":
                chk.fail(cid, "no-answer:" + st.split(":")[0] + "@" + x["feat"][0], c, {"risinglight": got, "sqlite": rv})
                continue
            rows = conv(U.decode(got))
            if U.mset(rows) != U.mset(rv):
                chk.fail(cid, "rows-differ@" + x["feat"][0], c, {"risinglight": rows, "sqlite": rv})
                continue
            if x["okeys"]:
                ka = [tuple(r[i] for i, _ in x["okeys"]) for r in rows]
                kb = [tuple(r[i] for i, _ in x["okeys"]) for r in rv]
                if ka != kb:
                    chk.fail(cid, "order-differs@" + x["feat"][0], c, {"risinglight": rows, "sqlite": rv})
                    continue
            chk.ok(cid, nontrivial=len(rv) > 0, outcome=f"rows={min(len(rv), 5)}", sample={"case": c, "rows": rv[:3]})
    chk.assumptions += ["SQLite 3.40 is the reference for the subset listed in checks/dialect.md; NULLs sort first in both",
                        "queries risinglight rejects at bind time are counted as unsupported, not as wrong answers"]
    chk.extra.update(queries=len(qs), databases=len(qgen.databases(tier)))
    return chk


def replay(path):
    d = json.load(open(path))
    c = d["case"]
    for (dbname, schema, tables) in qgen.databases("thorough"):
        if dbname == c["db"]:
            split = c["engine"] == "disk"
            steps = [{"sql": s} for s in qgen.setup_sql(schema, tables, split)] + [{"sql": c["sql"]}, {"sql": "explain " + c["sql"]}]
            out = runner.run_many("sql", [{"id": 0, "engine": c["engine"], "opts": c["layout"] or {}, "steps": steps}])[0]
            print(json.dumps(out["results"][-2:])[:3000])
            print("sqlite:", sqlite_run(schema, tables, [{"sql": c["sql"]}]))
            return 0
    return 2
