"""C09 — background compaction never loses or resurrects rows under concurrency.
Stateless model checking of the real engine (E4): for each workload (1-2 client sessions issuing inserts/deletes on two
tables with two row-sets each, K compactor passes, vacuum) every interleaving at the instrumented yield points up to a
preemption bound is executed; at the end, and after a reopen, each table must hold inserts minus acknowledged deletes."""
import json, os
from lib import core, runner, e4util

TRANSPARENT = ["txn.start", "run.begin", "run.planned", "scan.next", "txn.commit", "commit.appended", "commit.built", "vacuum."]


def wl(name, actors, passes=1, setup=None, expect=None, opts=None, init=None):
    w = {"name": name, "setup": setup or e4util.BASE_SETUP, "actors": [{"name": n, "stmts": s} for n, s in actors],
         "passes": passes, "tables": ["t", "u"], "transparent": TRANSPARENT, "expect": expect}
    if opts:
        w["opts"] = opts
    if init:
        w["init"] = init
    return w


# a table whose first row-set is larger than the row-set size budget (the compactor never selects it) next to two small
# row-sets that it merges: a compaction that replaces only SOME of the row-sets a concurrent DELETE has located
BIG = list(range(1, 301))
PARTIAL_OPTS = {"block": 64, "rowset": 700}
PARTIAL_SETUP = ["create table t(a int)", "create table u(a int)",
                 "insert into t values " + ",".join(f"({i})" for i in BIG), "insert into t values (1001)", "insert into t values (1002)",
                 "insert into u values (1),(2)", "insert into u values (3)",
                 "set mock_rowcount_t = 3", "set mock_rowcount_u = 3"]
PARTIAL_INIT = {"t": BIG + [1001, 1002], "u": [1, 2, 3]}


PK_SETUP = [s.replace("(a int)", "(a int primary key)") for s in e4util.BASE_SETUP]


def workloads(tier):
    b = 2 if tier == "quick" else 3
    ws = [
        wl("del-u", [("A", ["delete from u where a = 1"])]),
        wl("del-t", [("A", ["delete from t where a = 1"])]),
        wl("del-t+del-u", [("A", ["delete from t where a = 1"]), ("B", ["delete from u where a = 2"])]),
        wl("ins-t", [("A", ["insert into t values (7)"])]),
        wl("ins-u+del-u", [("A", ["insert into u values (7)"]), ("B", ["delete from u where a = 1"])]),
        wl("del-u;del-u", [("A", ["delete from u where a = 1", "delete from u where a = 2"])]),
        wl("del-u/2passes", [("A", ["delete from u where a = 1"])], passes=2),
        wl("ins-t;ins-t/2passes", [("A", ["insert into t values (7)", "insert into t values (8)"])], passes=2),
        wl("del-t+ins-t", [("A", ["delete from t where a = 3"]), ("B", ["insert into t values (9)"])]),
        wl("delall-u", [("A", ["delete from u"])]),
        wl("del-t+del-t", [("A", ["delete from t where a = 1"]), ("B", ["delete from t where a = 2"])]),
        wl("ins-u+ins-t", [("A", ["insert into u values (7)"]), ("B", ["insert into t values (8)"])]),
        wl("pk:del-u", [("A", ["delete from u where a = 1"])], setup=PK_SETUP),
        wl("pk:del-t+ins-t", [("A", ["delete from t where a = 3"]), ("B", ["insert into t values (9)"])], setup=PK_SETUP),
        wl("del-t;del-u/2passes", [("A", ["delete from t where a = 1", "delete from u where a = 1"])], passes=2),
        wl("del-u+sel-u", [("A", ["delete from u where a = 1"]), ("B", ["select count(*) from u"])]),
        wl("partial:del-big+small", [("A", ["delete from t where a = 5 or a = 1001"])], setup=PARTIAL_SETUP, opts=PARTIAL_OPTS, init=PARTIAL_INIT),
        wl("partial:del+ins", [("A", ["delete from t where a = 7 or a = 1002"]), ("B", ["insert into t values (2000)"])], setup=PARTIAL_SETUP, opts=PARTIAL_OPTS, init=PARTIAL_INIT),
    ]
    for w in ws:
        two = len(w["actors"]) > 1
        w["bound"] = (1 if two else 2) if tier == "quick" else (2 if two else 3)
        w["max_execs"] = 3000 if tier == "quick" else 40000        # per shard
    return ws


def model(w):
    """Expected final tables: initial rows + acknowledged inserts - acknowledged deletes (the workloads are commutative)."""
    import re
    tabs = {"t": [1, 2, 3], "u": [1, 2, 3]}
    return tabs


def expected(w, stmts):
    import re
    tabs = {k: list(v) for k, v in (w.get("init") or {"t": [1, 2, 3], "u": [1, 2, 3]}).items()}
    notes = []
    for a in w["actors"]:
        res = stmts.get(a["name"])
        if not isinstance(res, list):
            notes.append(f"actor {a['name']}: {res}")
            continue
        for sql, r in zip(a["stmts"], res):
            acked = isinstance(r, dict) and "rows" in r
            m = re.match(r"insert into (\w+) values \((\d+)\)", sql)
            if m and acked:
                tabs[m.group(1)].append(int(m.group(2)))
            m = re.match(r"delete from (\w+)(?: where a = (\d+)(?: or a = (\d+))?)?$", sql)
            if m and acked:
                t = m.group(1)
                gone = {int(g) for g in m.groups()[1:] if g is not None}
                tabs[t] = [] if m.group(2) is None else [x for x in tabs[t] if x not in gone]
            if not acked and not sql.startswith("select"):
                # a statement that fails (e.g. aborted on a conflict with a compaction) is simply not applied:
                # the property constrains acknowledged operations only. A panic is still a violation.
                if not (isinstance(r, dict) and "err" in r):
                    notes.append(f"{a['name']}: {sql} -> {json.dumps(r)[:200]}")
    return {k: sorted((str(x),) for x in v) for k, v in tabs.items()}, notes


def run(tier, seed):
    ws = workloads(tier)
    chk = core.Check("C09", tier, "model_checking",
                     f"{len(ws)} workloads (client sessions with insert/delete statements on two tables of two row-sets each, plus a table with an over-budget row-set that compaction leaves alone (partial compaction), 1-2 compactor passes, vacuum) x every "
                     f"interleaving at the gates [compactor.pass/pinned/table/read_done, txn.pinned, txn.locked, commit.begin] with <= {ws[0]['bound']} preemptions (one-session workloads) / <= {ws[2]['bound']} (two-session workloads); "
                     "a case = (workload, schedule); oracle: final and reopened tables == initial + acked inserts - acked deletes; no panic, no deadlock; "
                     "non-trivial = the schedule interleaves a client with the compactor (>=1 preemption)", seed)
    states = set()
    trans = [0]

    def on_exec(w, d):
        o = d["out"]
        case = {"workload": w["name"], "trace": d["trace"]}
        cid = e4util.trace_id(w["name"], d["trace"])
        trans[0] += len(d["trace"])
        want, notes = expected(w, o["stmts"])
        sig = None
        detail = {}
        if not o["setup_ok"]:
            chk.machinery(f"{w['name']}: setup failed")
            return
        if o["deadlock"]:
            sig = "deadlock"
        elif o["bg_panics"]:
            sig = "panic"
            detail["panics"] = o["bg_panics"]
        elif o["shutdown"] != "ok":
            sig = "shutdown-fails"
        elif o["reopen_open"] != "ok":
            sig = "reopen-fails"
        elif notes:
            sig = "statement-panicked-or-unfinished"
            detail["notes"] = notes
        else:
            for phase in ("final", "reopen"):
                for t in ("t", "u"):
                    got = e4util.rows_of(o[phase].get(t))
                    if got != want[t]:
                        gs, wsx = set(got or []), set(want[t])
                        kind = "resurrected" if gs - wsx and not wsx - gs else "lost" if wsx - gs and not gs - wsx else "differs"
                        if got is not None and len(got) != len(gs):
                            kind = "duplicated"
                        sig = f"{phase}:{t}:{kind}"
                        detail = {"got": got, "want": want[t], "stmts": o["stmts"]}
                        break
                if sig:
                    break
        acks = sum(1 for v in o["stmts"].values() if isinstance(v, list) for r in v if isinstance(r, dict) and "rows" in r)
        okey = json.dumps([o["final"].get("t", {}).get("rows"), o["final"].get("u", {}).get("rows")], sort_keys=True)
        states.add((w["name"], okey))
        if sig:
            chk.fail(cid, sig, dict(case, workload_def=w), detail, outcome=sig)
        else:
            chk.ok(cid, nontrivial=d["pre"] > 0, outcome=f"ok:acked={acks}", sample={"workload": w["name"], "trace": d["trace"][:12] + ["..."]})

    summaries, problems = e4util.explore_all(e4util.shard(ws, lambda w: 4 if len(w["actors"]) > 1 or len(w["actors"][0]["stmts"]) > 1 else 1), on_exec)
    for p in problems:
        chk.machinery(p)
    for n, s in summaries.items():
        if s["capped"]:
            chk.cap(f"{n}: stopped after {s['schedules']} schedules (bound {s['bound']})")
    chk.extra.update(states=len(states), transitions=trans[0], traces_validated_against_impl=chk.evaluations,
                     schedules_per_workload={n: s["schedules"] for n, s in summaries.items()},
                     preemption_bound=ws[0]["bound"])
    chk.assumptions += ["interleavings only at instrumented gates; code between two gates is atomic in the model (current-thread runtime)",
                        "gates run.planned, scan.next, txn.commit, commit.appended, vacuum.* are transparent in this check (released at once)",
                        "hash-map iteration order fixed by the getrandom shim (seed 0); compactor visits tables in id order"]
    return chk


def replay(path):
    d = json.load(open(path))
    tmp = path + ".e4"
    json.dump({"workload": d["case"]["workload_def"], "trace": d["case"]["trace"]}, open(tmp, "w"))
    return e4util.replay(tmp)
