"""C17 — every accepted query is planned into an executable plan.
For every statement of the corpus (qgen + correlated subqueries, window functions, CTEs, views, DISTINCT ON, non-constant
LIMIT, DML with subqueries) that the binder accepts, on several databases x engines x statistics: the optimizer terminates
without panic, the optimized plan passes a static well-formedness walk (executor-supported operators only, every column
reference resolvable in its input's schema, consistent join key lists, `true` residual where the executor asserts it),
output types equal those of the bound plan, and executor::build + execution do not panic.
Part 2 (lib/forms.py): every statement form of a DDL / settings / utility / odd-DML menu, alone and in every ordered pair, is run
through Database::run on both engines: no panic, the session stays usable, and on disk the directory reopens."""
import json
import os
from lib import core, runner, planutil, forms
from lib import sqlutil as U


def classify(r):
    """returns None or (sig, detail)"""
    if "optimize_panic" in r:
        return "optimizer-panics", r["optimize_panic"]
    if r.get("opt_ms", 0) > 2500:
        return "optimizer-slow(>2.5s)", r["opt_ms"]
    if r.get("wf"):
        w = r["wf"][0]
        kind = ("apply" if "apply" in w else "unresolved-subquery" if "subquery" in w or "sub-plan" in w else "column-not-in-input" if "not produced" in w
                else "join-residual" if "residual" in w else "limit-not-constant" if "constant" in w else "mergejoin-type" if "mergejoin" in w else "other")
        return "malformed-plan:" + kind, r["wf"]
    if r.get("static_bound") != r.get("static_opt"):
        return "output-schema-changed", {"bound": r.get("static_bound"), "optimized": r.get("static_opt")}
    if "build_panic" in r:
        return "executor-build-panics", r["build_panic"]
    if "run_panic" in r:
        return "execution-panics", r["run_panic"]
    if "task_panics" in r:
        return "operator-panics", r["task_panics"]
    if "run_err" in r and "panicked" in r["run_err"]:
        return "operator-panics", r["run_err"]
    return None


def run(tier, seed):
    js = planutil.jobs(tier)
    chk = core.Check("C17", tier, "exploration",
                     f"{len(planutil.corpus(tier))} statements (qgen corpus + {len(planutil.EXTRA)} forms: correlated subqueries in WHERE/SELECT/HAVING, window functions, CTEs, views, DISTINCT ON, non-constant LIMIT, DML with subqueries) "
                     "x databases x {memory, disk} x statistics assignments; for every statement the binder accepts: optimize (no panic, < 2.5 s), static well-formedness walk, "
                     "output types == bound types, executor::build and execution do not panic; a case = (db, engine, stats, sql); non-trivial = statement accepted by the binder. "
                     f"Part 2: {len(forms.FORMS)} DDL / settings / utility / odd-DML statement forms, each alone on both engines and in every ordered pair (first = a catalog- or data-changing form), "
                     "through Database::run: no panic, probe statements afterwards succeed, on disk two reopens succeed and the probe table is intact", seed)
    res = planutil.run_jobs(js)
    for (job, meta, chunk), r in zip(js, res):
        if r.get("abort"):
            chk.fail(core.case_id(dict(meta, sql="<chunk>", first=chunk[0])), "process-aborts", meta, r)
            continue
        if not r["setup_ok"]:
            chk.machinery(f"setup failed for {meta}")
            continue
        for sql, x in zip(chunk, r["results"]):
            c = dict(meta, sql=sql)
            cid = core.case_id(c)
            if not x.get("bound"):
                chk.skip("rejected by parser/binder" if "bind_panic" not in x else "binder panics")
                if "bind_panic" in x:
                    chk.fail(cid, "binder-panics", c, x["bind_panic"])
                continue
            v = classify(x)
            if v:
                chk.fail(cid, v[0], c, v[1], outcome=v[0])
            else:
                chk.ok(cid, nontrivial=True, outcome="run" if "run" in x else "runtime-error", sample={"case": c})
    # part 2: statement forms (DDL, settings, utility statements, DML on views / system tables) through Database::run,
    # alone and in ordered pairs
    fcases = forms.cases(tier)
    fres = runner.run_many("sql", [forms.script(e, f) for e, f in fcases], timeout=120, progress=5000)
    nacc = 0
    for (e, f), r in zip(fcases, fres):
        c = {"engine": e, "forms": f}
        cid = core.case_id(c)
        v = forms.judge(e, f, r)
        if v and v[0] == "MACHINERY":
            chk.machinery(f"forms setup failed: {v[1]}")
            continue
        if v:
            chk.fail(cid, "form:" + v[0], c, v[1], outcome="form:" + v[0])
        else:
            acc = [U.status(x) in ("rows", "ok") for x in r["results"][len(forms.SETUP):len(forms.SETUP) + len(f)]]
            nacc += all(acc)
            chk.ok(cid, nontrivial=any(acc), outcome="form:" + "".join("a" if a else "r" for a in acc), sample={"case": c})
    chk.extra.update(statement_forms=len(forms.FORMS), form_scripts=len(fcases), form_scripts_all_accepted=nacc)
    for fn in ("rlv_forms_out.csv", "rlv_forms_out2.csv", "rlv_forms_out3.csv"):
        try:
            os.remove("/dev/shm/" + fn)
        except OSError:
            pass
    chk.assumptions += ["egg's 5 s wall-clock limit is an uncontrolled input: a planning time above 2.5 s is reported instead of compared",
                        "runtime errors (e.g. arithmetic overflow) are not C17's business; panics are"]
    return chk


def replay(path):
    d = json.load(open(path))
    c = d["case"]
    if "forms" in c:
        sc = forms.script(c["engine"], c["forms"])
        out = runner.run_many("sql", [sc])[0]
        for st, r in zip(sc["steps"], out.get("results", [])):
            print(json.dumps(st), "->", json.dumps(r)[:300])
        return 0
    for (job, meta, chunk) in planutil.jobs("thorough"):
        if meta == {k: c[k] for k in ("db", "engine", "layout", "stats")} and c["sql"] in chunk:
            job["stmts"] = [c["sql"]]
            print(json.dumps(runner.run_many("plan", [job])[0])[:3000])
            return 0
    return 2
