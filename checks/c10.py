"""C10 — concurrent sessions behave like some serial order.
Stateless model checking (E4): k sessions with short statement lists (CREATE/DROP TABLE incl. same names, INSERT, DELETE,
SELECT) plus one compactor pass; every interleaving at the gates up to a preemption bound. Oracle: brute-force search for a
serial order of the ACKNOWLEDGED statements, consistent with session order, whose execution on a plain reference model
yields every observed statement result and the final tables; no panic, no deadlock, shutdown and reopen succeed and the
reopened database shows the same tables."""
import itertools, json, re
from lib import core, runner, e4util

TRANSPARENT = ["txn.start", "scan.next", "txn.commit", "commit.appended", "vacuum.", "compactor.table", "compactor.pinned", "compactor.read_done", "txn.locked"]
SETUP = ["create table t(a int)", "create table u(a int)", "insert into t values (1),(2)", "insert into t values (3)",
         "insert into u values (1)", "set mock_rowcount_t = 3", "set mock_rowcount_u = 1"]
INIT = {"t": [1, 2, 3], "u": [1]}


def wl(name, actors, tables):
    return {"name": name, "setup": SETUP, "actors": [{"name": n, "stmts": s} for n, s in actors], "passes": 1,
            "tables": tables, "transparent": TRANSPARENT}


def workloads(tier):
    ws = [
        wl("create-y|create-y", [("A", ["create table y(a int)"]), ("B", ["create table y(a int)"])], ["t", "u", "y"]),
        wl("create-y;ins-y|ins-y", [("A", ["create table y(a int)", "insert into y values (1)"]), ("B", ["insert into y values (2)"])], ["t", "u", "y"]),
        wl("drop-t|ins-t", [("A", ["drop table t"]), ("B", ["insert into t values (7)"])], ["t", "u"]),
        wl("drop-t|sel-t", [("A", ["drop table t"]), ("B", ["select count(*) from t"])], ["t", "u"]),
        wl("drop-t;create-t|ins-t", [("A", ["drop table t", "create table t(a int)"]), ("B", ["insert into t values (7)"])], ["t", "u"]),
        wl("ins-t|ins-t", [("A", ["insert into t values (7)"]), ("B", ["insert into t values (8)"])], ["t", "u"]),
        wl("del-t|sel-t", [("A", ["delete from t where a = 1"]), ("B", ["select count(*) from t"])], ["t", "u"]),
        wl("ins-t|del-t", [("A", ["insert into t values (7)"]), ("B", ["delete from t where a = 7"])], ["t", "u"]),
        wl("drop-t|drop-t", [("A", ["drop table t"]), ("B", ["drop table t"])], ["t", "u"]),
        wl("del-t|del-t", [("A", ["delete from t where a = 1"]), ("B", ["delete from t where a = 1"])], ["t", "u"]),
        wl("del-t1|del-t2", [("A", ["delete from t where a = 1"]), ("B", ["delete from t where a = 2"])], ["t", "u"]),
        wl("drop-u|del-u", [("A", ["drop table u"]), ("B", ["delete from u where a = 1"])], ["t", "u"]),
        wl("create-y|drop-u", [("A", ["create table y(a int)", "insert into y values (5)"]), ("B", ["drop table u"])], ["t", "u", "y"]),
        wl("ins-u;sel-u|del-u", [("A", ["insert into u values (2)", "select count(*) from u"]), ("B", ["delete from u where a = 1"])], ["t", "u"]),
        # views and indexes take ids from the same counter as tables but are not logged: a concurrent CREATE TABLE must still
        # be replayable (the manifest records the table id)
        wl("create-view|create-y;ins-y", [("A", ["create view vv(x) as select a from t"]), ("B", ["create table y(a int)", "insert into y values (5)"])], ["t", "u", "y"]),
        wl("create-index|create-y;ins-y", [("A", ["create index ix on t(a)"]), ("B", ["create table y(a int)", "insert into y values (5)"])], ["t", "u", "y"]),
        wl("create-y;drop-y|create-y", [("A", ["create table y(a int)", "drop table y"]), ("B", ["create table y(a int)"])], ["t", "u", "y"]),
    ]
    if tier == "thorough":
        ws += [
            wl("3:ins|ins|del", [("A", ["insert into t values (7)"]), ("B", ["insert into t values (8)"]), ("C", ["delete from t where a = 7"])], ["t", "u"]),
            wl("3:create|create|drop", [("A", ["create table y(a int)"]), ("B", ["create table y(a int)"]), ("C", ["drop table u"])], ["t", "u", "y"]),
        ]
    # the memory engine: the same DDL / DML races at the gates of Database::run (bind -> plan -> execute); no compactor, no reopen
    mem = []
    for w in ws:
        if w["name"] in ("create-y|create-y", "create-y;ins-y|ins-y", "drop-t|ins-t", "drop-t|sel-t", "drop-t;create-t|ins-t", "ins-t|ins-t", "del-t|sel-t",
                         "ins-t|del-t", "drop-t|drop-t", "drop-u|del-u", "create-y;drop-y|create-y", "del-t|del-t", "del-t1|del-t2"):
            m = json.loads(json.dumps(w))
            m.update(name="mem:" + w["name"], engine="mem", passes=0, reopen=False)
            mem.append(m)
    ws += mem
    # in the two-DELETE workloads the point at which each transaction of a statement (the scan's and the delete's) pins its
    # snapshot is a scheduling choice of its own: a scan may pin before, and its DELETE after, another session's commit
    for w in ws:
        if "del-t|del-t" in w["name"] or "del-t1|del-t2" in w["name"]:
            w["transparent"] = [x for x in w["transparent"] if x != "txn.start"]
    for w in ws:
        w["bound"] = 2 if tier == "quick" else 3
        w["max_execs"] = 1500 if tier == "quick" else 40000
    return ws


def apply(state, sql):
    """Reference model: returns (new_state, result) where result is ('ok', rows) or ('err',)."""
    st = {k: list(v) for k, v in state.items()}
    m = re.match(r"create table (\w+)", sql)
    if m:
        if m.group(1) in st:
            return st, ("err",)
        st[m.group(1)] = []
        return st, ("ok", None)
    m = re.match(r"drop table (\w+)", sql)
    if m:
        if m.group(1) not in st:
            return st, ("err",)
        del st[m.group(1)]
        return st, ("ok", None)
    if re.match(r"create (view|index) ", sql):
        return st, ("ok", None)          # no effect on the tables the model tracks
    m = re.match(r"insert into (\w+) values \((\d+)\)", sql)
    if m:
        if m.group(1) not in st:
            return st, ("err",)
        st[m.group(1)].append(int(m.group(2)))
        return st, ("ok", [("1",)])
    m = re.match(r"delete from (\w+) where a = (\d+)", sql)
    if m:
        if m.group(1) not in st:
            return st, ("err",)
        n = sum(1 for x in st[m.group(1)] if x == int(m.group(2)))
        st[m.group(1)] = [x for x in st[m.group(1)] if x != int(m.group(2))]
        return st, ("ok", [(str(n),)])
    m = re.match(r"select count\(\*\) from (\w+)", sql)
    if m:
        if m.group(1) not in st:
            return st, ("err",)
        return st, ("ok", [(str(len(st[m.group(1)])),)])
    raise ValueError(sql)


def interleavings(seqs):
    """all merges of the per-session lists that keep each list's order"""
    seqs = [s for s in seqs if s]
    if not seqs:
        yield []
        return
    for i, s in enumerate(seqs):
        rest = seqs[:i] + [s[1:]] + seqs[i + 1:]
        for tail in interleavings(rest):
            yield [s[0]] + tail


def explain(w, stmts, final):
    """True iff some serial order of the acknowledged statements explains results and final state."""
    per = []
    for a in w["actors"]:
        res = stmts[a["name"]]
        lst = []
        for sql, r in zip(a["stmts"], res):
            if isinstance(r, dict) and "rows" in r:
                obs = sorted(tuple(x) for x in r["rows"])
                lst.append((sql, obs))
        per.append(lst)
    for order in interleavings(per):
        st = {k: list(v) for k, v in INIT.items()}
        ok = True
        for sql, obs in order:
            st, res = apply(st, sql)
            if res[0] != "ok":
                ok = False
                break
            if res[1] is not None and sorted(res[1]) != obs:
                ok = False
                break
        if not ok:
            continue
        fin = {k: sorted((str(x),) for x in v) for k, v in st.items()}
        if fin == final:
            return True
    return False


def run(tier, seed):
    ws = workloads(tier)
    chk = core.Check("C10", tier, "model_checking",
                     f"{len(ws)} workloads (2-3 sessions, 1-2 statements each: CREATE/DROP TABLE incl. same names, INSERT, DELETE, SELECT count; one compactor pass; 13 of them also on the memory engine) x every "
                     f"interleaving at the gates [run.begin, run.planned, txn.pinned, commit.begin, commit.built (before the manifest append), create_table.persisted, drop_table.applied, compactor.pass] with <= {ws[0]['bound']} preemptions; "
                     "a case = (workload, schedule); oracle: exists serial order of the acknowledged statements explaining all results and the final tables; "
                     "no panic/deadlock; shutdown+reopen succeed and show the same tables; non-trivial = >=1 preemption", seed)
    states, trans = set(), [0]

    def on_exec(w, d):
        o, trace = d["out"], d["trace"]
        case = {"workload": w["name"], "trace": trace}
        cid = e4util.trace_id(w["name"], trace)
        trans[0] += len(trace)
        if not o["setup_ok"]:
            chk.machinery(f"{w['name']}: setup failed")
            return
        sig, detail = None, {}
        final = {}
        for t in w["tables"]:
            r = o["final"].get(t)
            rows = e4util.rows_of(r)
            if rows is not None:
                final[t] = rows
            elif not (isinstance(r, dict) and r.get("err") == "bind"):
                sig, detail = "final-select-fails", {"table": t, "result": r}
        unfinished = [a for a, v in o["stmts"].items() if not isinstance(v, list)]
        panicked = [(a, r) for a, v in o["stmts"].items() if isinstance(v, list) for r in v if isinstance(r, dict) and "panic" in r]
        if sig:
            pass
        elif o["deadlock"] or unfinished:
            sig, detail = "deadlock", {"unfinished": unfinished}
        elif panicked:
            sig, detail = "session-panic", {"panics": panicked[:2]}
        elif o["bg_panics"]:
            sig, detail = "task-panic", {"panics": o["bg_panics"][:2]}
        elif o["shutdown"] != "ok":
            sig, detail = "shutdown-fails", {"shutdown": o["shutdown"]}
        elif w.get("engine") == "mem":
            if not explain(w, o["stmts"], final):
                sig, detail = "no-serial-order", {"stmts": o["stmts"], "final": final}
        elif o["reopen_open"] != "ok":
            sig, detail = "reopen-fails", {"reopen": o["reopen_open"], "stmts": o["stmts"]}
        else:
            re_final = {}
            for t in w["tables"]:
                rows = e4util.rows_of(o["reopen"].get(t))
                if rows is not None:
                    re_final[t] = rows
            if re_final != final:
                sig, detail = "reopen-state-differs", {"before": final, "after": re_final}
            elif not explain(w, o["stmts"], final):
                sig, detail = "no-serial-order", {"stmts": o["stmts"], "final": final}
        states.add((w["name"], json.dumps(final, sort_keys=True)))
        if sig:
            chk.fail(cid, sig, dict(case, workload_def=w), detail, outcome=sig)
        else:
            acks = sum(1 for v in o["stmts"].values() for r in v if isinstance(r, dict) and "rows" in r)
            chk.ok(cid, nontrivial=d["pre"] > 0, outcome=f"serializable:acked={acks}:" + json.dumps(final, sort_keys=True)[:60],
                   sample={"workload": w["name"], "trace": trace[:14] + ["..."]})

    summaries, problems = e4util.explore_all(e4util.shard(ws, lambda w: 3), on_exec)
    for p in problems:
        chk.machinery(p)
    for n, s in summaries.items():
        if s["capped"]:
            chk.cap(f"{n}: a shard stopped after its cap ({s['schedules']} schedules in total, bound {s['bound']})")
    chk.extra.update(states=len(states), transitions=trans[0], traces_validated_against_impl=chk.evaluations,
                     schedules_per_workload={n: s["schedules"] for n, s in summaries.items()}, preemption_bound=ws[0]["bound"])
    chk.assumptions += ["interleavings only at instrumented gates on a current-thread runtime; free-running multi-threaded runs are NOT decided by this check",
                        "failed (unacknowledged) statements are required to have no effect; acknowledged ones must be serializable",
                        "hash order fixed by the getrandom shim (seed 0)"]
    return chk


def replay(path):
    d = json.load(open(path))
    tmp = path + ".e4"
    json.dump({"workload": d["case"]["workload_def"], "trace": d["case"]["trace"]}, open(tmp, "w"))
    return e4util.replay(tmp)
