"""C08 — readers see a stable snapshot and their files are never removed.
Stateless model checking (E4): one or two readers (scan fetched batch by batch over several row-sets) interleaved with
writers (insert / delete / drop), compactor passes and the vacuum task at every gate up to a preemption bound.
At every quiescent state: every row-set of every pinned version still has its directory. At the end: each reader
returned exactly the rows committed when it pinned (computed from the schedule), no panic, no error, no deadlock."""
import json, re
from lib import core, runner, e4util

TRANSPARENT = ["txn.start", "run.begin", "txn.commit", "txn.locked", "compactor.pass", "compactor.table", "commit.begin", "commit.built"]
INIT = {"t": [1, 2, 3], "u": [1, 2, 3]}


tier_reopen = False


def wl(name, actors, passes=1, dv=False):
    """dv: both row-sets of t already have a delete vector when the actors start (the compaction that merges them also
    retires the vectors, which a reader pinned earlier still has to resolve)"""
    w = {"name": name, "setup": e4util.BASE_SETUP, "actors": [{"name": n, "stmts": s} for n, s in actors],
         "passes": passes, "tables": ["t", "u"], "transparent": TRANSPARENT, "check_pins": True, "reopen": tier_reopen}
    if dv:
        w["setup"] = e4util.BASE_SETUP[:4] + ["insert into t values (4),(5)", "delete from t where a = 2 or a = 4"] + e4util.BASE_SETUP[4:]
        w["init"] = {"t": [1, 3, 5], "u": [1, 2, 3]}
    return w


def workloads(tier):
    global tier_reopen
    tier_reopen = tier != "quick"      # the reopen after every schedule is only done in the thorough tier
    ws = [
        wl("R", [("R", ["select * from t"])]),
        wl("R+ins", [("R", ["select * from t"]), ("W", ["insert into t values (7)"])]),
        wl("R+del", [("R", ["select * from t"]), ("W", ["delete from t where a = 1"])]),
        wl("R+ins;ins/2passes", [("R", ["select * from t"]), ("W", ["insert into t values (7)", "insert into t values (8)"])], passes=2),
        wl("R+drop", [("R", ["select * from t"]), ("W", ["drop table t"])]),
        wl("R+R", [("R", ["select * from t"]), ("R2", ["select * from t"])]),
        wl("R+ins-u", [("R", ["select * from t"]), ("W", ["insert into u values (7)"])]),
        wl("R;R+del", [("R", ["select * from u", "select * from t"]), ("W", ["delete from t where a = 2"])]),
        wl("dv:R", [("R", ["select * from t"])], dv=True),
        wl("dv:R+del", [("R", ["select * from t"]), ("W", ["delete from t where a = 1"])], dv=True),
        wl("dv:R+drop", [("R", ["select * from t"]), ("W", ["drop table t"])], dv=True),
    ]
    if tier == "quick":
        ws = [w for w in ws if w["name"] != "R+ins-u"]       # the other-table writer is explored in the thorough tier only
    for w in ws:
        two = len(w["actors"]) > 1
        w["bound"] = (1 if two else 2) if tier == "quick" else (2 if two else 3)
        w["max_execs"] = 1500 if tier == "quick" else 60000       # per shard
    return ws


def writer_effects(w, trace, stmts):
    """[(trace index of the commit becoming visible, table, fn)] for acknowledged writer statements, in commit order."""
    eff = []
    for a in w["actors"]:
        if a["name"].startswith("R"):
            continue
        idxs = [i for i, l in enumerate(trace) if l == f"{a['name']}/commit.appended"]
        res = stmts.get(a["name"])
        k = 0
        for sql, r in zip(a["stmts"], res if isinstance(res, list) else []):
            acked = isinstance(r, dict) and "rows" in r
            m = re.match(r"insert into (\w+) values \((\d+)\)", sql)
            d = re.match(r"delete from (\w+) where a = (\d+)", sql)
            if sql.startswith("drop"):
                # drop commits once; rows of the table vanish for later pins
                if k < len(idxs):
                    eff.append((idxs[k], "t", "drop"))
                k += 1
                continue
            if k < len(idxs):
                if m:
                    eff.append((idxs[k], m.group(1), ("ins", int(m.group(2)))))
                elif d:
                    eff.append((idxs[k], d.group(1), ("del", int(d.group(2)))))
            k += 1
    return sorted(eff)


def snapshot_at(eff, idx, table, init=INIT):
    rows = list(init[table])
    dropped = False
    for i, t, e in eff:
        if i >= idx or t != table:
            continue
        if e == "drop":
            dropped = True
        elif e[0] == "ins":
            rows.append(e[1])
        else:
            rows = [x for x in rows if x != e[1]]
    return (None if dropped else sorted((str(x),) for x in rows))


def run(tier, seed):
    ws = workloads(tier)
    chk = core.Check("C08", tier, "model_checking",
                     f"{len(ws)} workloads (1-2 readers scanning a 2-row-set table batch by batch; writers insert/delete/drop; 1-2 compactor passes; vacuum) x every "
                     f"interleaving at the gates [run.planned, txn.pinned, scan.next, commit.appended, compactor.pinned/read_done, create/drop_table.*, vacuum.wake/found] with <= {ws[0]['bound']} (one session) / {ws[1]['bound']} (two sessions) preemptions; "
                     "a case = (workload, schedule); invariant at every quiescent state: row-set directories of all pinned versions exist; oracle: reader rows == table as of its pin; "
                     "non-trivial = >=1 preemption", seed)
    states, trans = set(), [0]

    def on_exec(w, d):
        o, trace = d["out"], d["trace"]
        case = {"workload": w["name"], "trace": trace}
        cid = e4util.trace_id(w["name"], trace)
        trans[0] += len(trace)
        if not o["setup_ok"]:
            chk.machinery(f"{w['name']}: setup failed")
            return
        sig, detail = None, {}
        eff = writer_effects(w, trace, o["stmts"])
        has_drop = any("drop" in s for a in w["actors"] for s in a["stmts"])
        if o["inv"]:
            sig, detail = "file-removed-while-pinned", {"inv": o["inv"][:3]}
        elif o["deadlock"]:
            sig = "deadlock"
        elif o["bg_panics"] and has_drop and all("executor/mod.rs" in p and "Option::unwrap()" in p for p in o["bg_panics"]):
            # the reader's statement was planned, the table was dropped, then the executor was built: the scan never
            # started (no pin), so this is not a C08 matter (the panic itself is reported by C10)
            chk.ok(cid, nontrivial=d["pre"] > 0, outcome="reader-never-started(drop before build)")
            return
        elif o["bg_panics"]:
            sig, detail = "panic", {"panics": o["bg_panics"]}
        elif o["shutdown"] != "ok":
            sig, detail = "shutdown-fails", {"shutdown": o["shutdown"]}
        elif o["reopen_open"] != "ok":
            sig, detail = "reopen-fails", {"reopen": o["reopen_open"]}
        else:
            for a in w["actors"]:
                if not a["name"].startswith("R"):
                    continue
                res = o["stmts"].get(a["name"])
                if not isinstance(res, list):
                    sig, detail = "reader-unfinished", {"res": res}
                    break
                planned = [i for i, l in enumerate(trace) if l == f"{a['name']}/run.planned"]
                for k, (sql, r) in enumerate(zip(a["stmts"], res)):
                    table = sql.split()[-1]
                    got = e4util.rows_of(r)
                    if k >= len(planned):
                        sig, detail = "reader-not-started", {"stmt": sql}
                        break
                    want = snapshot_at(eff, planned[k], table, w.get("init", INIT))
                    if got is None:
                        if has_drop and isinstance(r, dict) and "err" in r:
                            continue        # the table may legitimately be gone before the scan started
                        sig, detail = "reader-error", {"stmt": sql, "result": r}
                        break
                    if want is None:
                        # pinned after the drop became visible, yet rows returned: acceptable only if it is the pre-drop content
                        want = snapshot_at([e for e in eff if e[2] != "drop"], planned[k], table, w.get("init", INIT))
                    if got != want:
                        sig, detail = "reader-rows-differ", {"stmt": sql, "got": got, "want_at_pin": want, "effects": [str(e) for e in eff], "pin_step": planned[k]}
                        break
                if sig:
                    break
        states.add((w["name"], json.dumps(o["final"], sort_keys=True)))
        if sig:
            chk.fail(cid, sig, dict(case, workload_def=w), detail, outcome=sig)
        else:
            chk.ok(cid, nontrivial=d["pre"] > 0, outcome="ok:" + ",".join(str(len(r.get("rows", []))) if isinstance(r, dict) and "rows" in r else "err" for a in w["actors"] if a["name"].startswith("R") for r in (o["stmts"].get(a["name"]) or [])),
                   sample={"workload": w["name"], "trace": trace[:14] + ["..."]})

    summaries, problems = e4util.explore_all(e4util.shard(ws, lambda w: 6 if len(w["actors"]) > 1 else 1), on_exec)
    for p in problems:
        chk.machinery(p)
    for n, s in summaries.items():
        if s["capped"]:
            chk.cap(f"{n}: a shard stopped after its cap ({s['schedules']} schedules in total, bound {s['bound']})")
    chk.extra.update(states=len(states), transitions=trans[0], traces_validated_against_impl=chk.evaluations,
                     schedules_per_workload={n: s["schedules"] for n, s in summaries.items()}, preemption_bound=ws[0]["bound"])
    chk.assumptions += ["interleavings only at instrumented gates (current-thread runtime; code between gates is atomic)",
                        "a reader's snapshot is taken in the step that releases its run.planned gate; writer commits become visible in the step that releases their commit.appended gate",
                        "hash order fixed by the getrandom shim (seed 0)"]
    return chk


def replay(path):
    d = json.load(open(path))
    tmp = path + ".e4"
    json.dump({"workload": d["case"]["workload_def"], "trace": d["case"]["trace"]}, open(tmp, "w"))
    return e4util.replay(tmp)
