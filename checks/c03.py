"""C03 — acknowledged changes survive a clean shutdown and reopen.
Bounded exhaustive history exploration over DDL/DML + reopen events on the disk engine: every sequence of
<= d operations that is valid in the model (plus selected invalid ones), on several storage options; after every
REOPEN and at the end (after two more reopen cycles) every surviving table is compared with the model
(definition via pg_catalog.pg_attribute, rows as a multiset) and a post-reopen script must succeed."""
import json
from lib import core, runner, sqlutil as U

TABLES = {
    "t": ("create table t(k int primary key, v int)", [("k", "int", True), ("v", "int", False)]),
    "u": ("create table u(a int, b varchar not null)", [("a", "int", False), ("b", "string", True)]),
}
INS = {
    "It1": ("t", [(1, 10), (2, None), (5, 50)]),
    "It2": ("t", [(3, 30), (4, 40)]),
    "Iu1": ("u", [(1, "x"), (None, "y")]),
    "Iu2": ("u", [(2, "z")]),
}
DELS = {
    "Dt": ("t", "delete from t where k < 3", lambda r: r[0] < 3),
    "Du": ("u", "delete from u where a is null", lambda r: r[0] is None),
    "DtA": ("t", "delete from t", lambda r: True),       # every row: a later compaction produces no row-set
    "Dt1": ("t", "delete from t where k = 1", lambda r: r[0] == 1),     # one row: a delete vector shorter than an earlier one of the same row-set
}
OTHER = {
    "CV": "create view vw(x) as select k from t",
    "DV": "drop view vw",
    "CI": "create index ix on t using btree (v)",
    "CF": "create function inc(int) returns int language sql as 'select $1 + 1'",
}
OPTS = [
    {"block": 64, "rowset": 1 << 20},
    {"block": 16384, "rowset": 1 << 20, "checksum": "none"},
]


def depth(tier):
    return 4 if tier == "quick" else 5


class Model:
    def __init__(self):
        self.tables = {}
        self.view = False
        self.index = False
        self.func = False

    def enabled(self):
        ops = []
        for t in TABLES:
            ops.append(("DT" if t in self.tables else "CT") + t)
        for k, (t, _) in INS.items():
            if t in self.tables:
                ops.append(k)
        for k, (t, _, _) in DELS.items():
            if t in self.tables and self.tables[t]:
                ops.append(k)
        if "t" in self.tables and self.view is not None:
            if self.view is False:
                ops.append("CV")
            if self.index is False:
                ops.append("CI")
        if self.view:
            ops.append("DV")
        if self.func is False:
            ops.append("CF")
        if len(self.tables) > 0:
            ops += ["C"]
        ops += ["R"]
        return ops

    def apply_rows(self, t, rows):
        m = Model()
        m.tables = {k: list(v) for k, v in self.tables.items()}
        m.view, m.index, m.func = self.view, self.index, self.func
        m.tables[t] += rows
        return m

    def apply(self, op):
        m = Model()
        m.tables = {k: list(v) for k, v in self.tables.items()}
        m.view, m.index, m.func = self.view, self.index, self.func
        if op.startswith("CT"):
            m.tables[op[2:]] = []
        elif op.startswith("DT"):
            del m.tables[op[2:]]
            if op[2:] == "t":
                # an index on a dropped table: the engine keeps the catalog entry; its state is unspecified from here on
                m.index = None if m.index else False
                if m.view:
                    m.view = None      # a view over a dropped table: unspecified from here on, no more view operations
                # the view on t may or may not survive; the property only speaks of tables
        elif op in INS:
            t, rows = INS[op]
            m.tables[t] += rows
        elif op in DELS:
            t, _, pred = DELS[op]
            m.tables[t] = [r for r in m.tables[t] if not pred(r)]
        elif op == "CV":
            m.view = True
        elif op == "DV":
            m.view = False
        elif op == "CI":
            m.index = True
        elif op == "CF":
            m.func = True
        elif op == "R":
            # views, indexes and functions are not required to survive a reopen: their state becomes unspecified
            if m.view:
                m.view = None
            if m.index:
                m.index = None
            if m.func:
                m.func = None
        return m


def op_step(op):
    if op.startswith("CT"):
        return {"sql": TABLES[op[2:]][0]}
    if op.startswith("DT"):
        return {"sql": f"drop table {op[2:]}"}
    if op in INS:
        t, rows = INS[op]
        return {"sql": U.insert_sql(t, rows)}
    if op in DELS:
        return {"sql": DELS[op][1]}
    if op in OTHER:
        return {"sql": OTHER[op]}
    if op == "C":
        return {"op": "compact"}
    return {"op": "reopen"}


# start states: empty; populated (two tables, two row-sets); churned (every row of two row-sets deleted and
# the row-sets compacted away: only delete vectors of vanished row-sets are left behind)
# churned+2R: ... and the database reopened twice (the first reopen rewrites the manifest without the vanished row-sets and
# vectors, the second derives the id counters from the rewritten manifest: row-set and delete-vector ids are then re-issued)
PREFIXES = {"empty": [], "populated": ["CTt", "It1", "It2", "CTu", "Iu1"], "churned": ["CTt", "It1", "It2", "Dt", "DtA", "C"],
            "churned+2R": ["CTt", "It1", "It2", "Dt", "DtA", "C", "R", "R"]}


def histories(d, prefix=()):
    def rec(m, h, prev_was_view_drop):
        if len(h) == d:
            yield h
            return
        
        for op in m.enabled():
            if h and h[-1] == "R" and op == "R":
                continue
            if op == "DTt" and m.view:
                # dropping a table that a view depends on: outcome for the view is unspecified -> keep the history
                # but it is flagged (see judge)
                pass
            yield from rec(m.apply(op), h + [op], False)
    m0 = Model()
    for op in prefix:
        m0 = m0.apply(op)
    for h in rec(m0, [], False):
        yield list(prefix) + h


def observe_steps(m):
    st = []
    for t in sorted(TABLES):
        st.append({"sql": f"select * from {t}"})
        st.append({"sql": f"select * from pg_catalog.pg_attribute where table_name = '{t}'"})
    return st


def build(case):
    steps = []
    m = Model()
    marks = []      # (index of first observe step, model, label)
    for i, op in enumerate(case["history"]):
        steps.append(op_step(op))
        m = m.apply(op)
        if op == "R":
            marks.append((len(steps), m, f"after-reopen@{i}"))
            steps += observe_steps(m)
    for j in range(2):
        steps.append({"op": "reopen"})
        marks.append((len(steps), m, f"final-reopen-{j + 1}"))
        steps += observe_steps(m)
    # post-reopen script: the database accepts further statements, and what they write is visible at once
    # and after one more reopen
    post = len(steps)
    steps += [{"sql": "create table z(q int)"}, {"sql": "insert into z values (7)"}, {"sql": "select q from z"}]
    mp = m
    post_obs = []     # (step index, table, expected rows)
    for t in sorted(m.tables):
        row = (99, 99) if t == "t" else (99, "w")
        steps.append({"sql": U.insert_sql(t, [row])})
        mp = mp.apply_rows(t, [row])
        post_obs.append((len(steps), t, list(mp.tables[t])))
        steps.append({"sql": f"select * from {t}"})
    steps.append({"op": "reopen"})
    steps.append({"sql": "select q from z"})
    for t in sorted(m.tables):
        post_obs.append((len(steps), t, list(mp.tables[t])))
        steps.append({"sql": f"select * from {t}"})
    return {"id": 0, "engine": "disk", "opts": case["opts"], "steps": steps}, marks, post, m, post_obs


def judge(chk, case, r, states):
    cid = core.case_id(case)
    if r.get("abort"):
        chk.fail(cid, "abort", case, r)
        return 0
    script, marks, post, m, post_obs = build(case)
    res = r["results"]
    # every history op must be acknowledged (they are all valid in the model)
    observe = set()
    for (idx, mm, label) in marks:
        observe.update(range(idx, idx + 2 * len(TABLES)))
    for i, st in enumerate(script["steps"][:post]):
        if i in observe:
            continue
        s = U.status(res[i])
        if s == "open_panic":
            chk.fail(cid, "reopen-fails", case, {"step": i, "result": res[i]})
            return len(res)
        if s not in ("rows", "ok"):
            if s == "skipped":
                continue
            chk.fail(cid, "statement-fails:" + s.split(":")[0], case, {"step": i, "stmt": st, "result": res[i]})
            return len(res)
    for (idx, mm, label) in marks:
        k = idx
        for t in sorted(TABLES):
            rows_r, attr_r = res[k], res[k + 1]
            k += 2
            if t in mm.tables:
                if not U.is_rows(rows_r):
                    chk.fail(cid, "table-unreadable", case, {"at": label, "table": t, "result": rows_r})
                    return len(res)
                got = U.decode(rows_r)
                if U.mset(got) != U.mset(mm.tables[t]):
                    chk.fail(cid, "rows-differ", case, {"at": label, "table": t, "got": got, "model": mm.tables[t]})
                    return len(res)
                want = list(TABLES[t][1])
                attrs = [(a[3], a[4], a[5]) for a in sorted(U.decode(attr_r), key=lambda a: a[2])] if U.is_rows(attr_r) else None
                if attrs != want:
                    chk.fail(cid, "definition-differs", case, {"at": label, "table": t, "got": attr_r, "want": want})
                    return len(res)
            else:
                if U.status(rows_r) != "err:bind":
                    chk.fail(cid, "dropped-table-visible", case, {"at": label, "table": t, "result": rows_r})
                    return len(res)
    # post script
    for i in range(post, len(res)):
        s = U.status(res[i])
        if s not in ("rows", "ok"):
            chk.fail(cid, "post-reopen-statement-fails:" + s.split(":")[0], case, {"step": i, "stmt": script["steps"][i], "result": res[i]})
            return len(res)
    zi = max(i for i, st in enumerate(script["steps"]) if st.get("sql") == "select q from z")
    if U.decode(res[zi]) != [(7,)]:
        chk.fail(cid, "post-reopen-rows-differ", case, {"got": res[zi]})
        return len(res)
    for (i, t, want) in post_obs:
        got = U.decode(res[i])
        if U.mset(got) != U.mset(want):
            chk.fail(cid, "post-reopen-rows-differ", case, {"table": t, "step": i, "got": got, "model": want})
            return len(res)
    states.add((core.canon(case["opts"]), core.canon({k: sorted(map(str, v)) for k, v in m.tables.items()}), m.view, m.index, m.func))
    nontriv = "R" in case["history"] or any(o in INS or o in DELS for o in case["history"])
    chk.ok(cid, nontrivial=nontriv, outcome=f"tables={len(m.tables)}", sample={"case": case})
    return len(res)


def run(tier, seed):
    d = depth(tier)
    chk = core.Check("C03", tier, "model_checking",
                     f"all model-valid histories of exactly {d} operations from the empty database and {d - 1} operations from three non-initial start states (populated: two tables, two row-sets; churned: two fully deleted row-sets compacted away; churned and reopened twice) (shorter ones are covered as prefixes via the reopen marks) over "
                     "{create/drop table t,u; 4 insert batches; 4 deletes (three partial, one of every row); create/drop view; create index; create function; forced compaction; reopen} "
                     f"x {len(OPTS)} storage options; each followed by two more reopen cycles and a post-reopen script; oracle: table rows and definitions == model "
                     "after every reopen, every statement acknowledged, post script (inserts into every table, read back at once and after one more reopen) agrees with the model. non-trivial = history has DML or a reopen", seed)
    cs = [{"opts": o, "history": h} for o in OPTS for pf in PREFIXES.values() for h in histories(d if not pf else d - 1, pf)]
    # shorter histories too (they end differently: the final reopen happens earlier)
    for dd in range(1, d):
        cs += [{"opts": OPTS[0], "history": h} for h in histories(dd)]
    res = runner.run_many("sql", [build(c)[0] for c in cs], timeout=120, progress=5000)
    states, trans = set(), 0
    for c, r in zip(cs, res):
        trans += judge(chk, c, r, states)
    chk.extra.update(states=len(states), transitions=trans, traces_validated_against_impl=len(cs), histories=len(cs))
    chk.assumptions += ["views, indexes and functions are not required to survive (the property speaks of tables), but reopening must succeed with them present",
                        "reopen = clean shutdown + Database::new_on_disk on the same directory"]
    return chk


def replay(path):
    d = json.load(open(path))
    script = build(d["case"])[0]
    out = runner.run_many("sql", [script])[0]
    for st, r in zip(script["steps"], out["results"]):
        print(json.dumps(st), "->", json.dumps(r)[:300])
    return 0
