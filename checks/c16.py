"""C16 — declared types and constraints hold for every stored and returned value.
(a) for every corpus statement that executes successfully (databases x engines): every returned chunk has exactly the
    column kinds of the statically derived output type of the executed plan, and one width.
(b) INSERT enumeration: target column type x nullability (NULL / NOT NULL / PRIMARY KEY) x source (VALUES literal of every
    type, NULL, omitted column, INSERT..SELECT with a different source type) on both engines; afterwards the stored value
    read back must have the declared type, be NULL only if the column is nullable, and equal the lossless conversion of
    the source - or the INSERT must have failed."""
import json
from lib import core, runner, planutil, sqlutil as U

COLTYPES = {
    "smallint": "Int16", "int": "Int32", "bigint": "Int64", "double": "Float64", "boolean": "Bool",
    "varchar": "String", "date": "Date", "decimal(10,2)": "Decimal", "vector(3)": "Vector", "interval": "Interval",
}
# literal -> {target type: expected stored display value, or FAIL}
LITS = {
    "1": {"smallint": "1", "int": "1", "bigint": "1", "double": "1", "boolean": "FAIL?", "varchar": "1", "date": "FAIL", "decimal(10,2)": "1.00?"},
    "70000": {"smallint": "FAIL", "int": "70000", "bigint": "70000", "double": "70000", "varchar": "70000", "date": "FAIL"},
    "3000000000": {"smallint": "FAIL", "int": "FAIL", "bigint": "3000000000", "double": "3000000000", "varchar": "3000000000"},
    "1.5": {"smallint": "FAIL", "int": "FAIL", "bigint": "FAIL", "double": "1.5", "varchar": "1.5", "decimal(10,2)": "1.50?"},
    "1.0": {"smallint": "1", "int": "1", "bigint": "1", "double": "1", "decimal(10,2)": "1.00?"},
    "-2.5": {"smallint": "FAIL", "int": "FAIL", "bigint": "FAIL", "double": "-2.5", "decimal(10,2)": "-2.50?"},
    "0.4": {"smallint": "FAIL", "int": "FAIL", "bigint": "FAIL", "double": "0.4"},
    "1.255": {"smallint": "FAIL", "int": "FAIL", "bigint": "FAIL", "double": "1.255", "decimal(10,2)": "FAIL"},
    "123456789012.5": {"smallint": "FAIL", "int": "FAIL", "bigint": "FAIL", "double": "123456789012.5", "decimal(10,2)": "FAIL"},
    "'1.5'": {"smallint": "FAIL", "int": "FAIL", "bigint": "FAIL", "double": "1.5", "varchar": "1.5"},
    "' 7'": {"varchar": " 7"},
    "''": {"smallint": "FAIL", "int": "FAIL", "bigint": "FAIL", "double": "FAIL", "boolean": "FAIL", "varchar": "", "date": "FAIL", "decimal(10,2)": "FAIL"},
    "'[1,2,3]'": {"vector(3)": "[1,2,3]", "varchar": "[1,2,3]", "int": "FAIL", "smallint": "FAIL", "bigint": "FAIL", "double": "FAIL", "boolean": "FAIL", "date": "FAIL", "decimal(10,2)": "FAIL", "interval": "FAIL"},
    "'[1,2]'": {"vector(3)": "FAIL", "varchar": "[1,2]"},
    "'[1,2,3,4]'": {"vector(3)": "FAIL"},
    "interval '1' day": {"interval": "1 day", "varchar": "1 day?", "int": "FAIL", "smallint": "FAIL", "bigint": "FAIL", "double": "FAIL", "boolean": "FAIL", "date": "FAIL"},
    "cast('1 hour' as interval)": {"interval": "1 hour"},
    "'abc'": {"smallint": "FAIL", "int": "FAIL", "bigint": "FAIL", "double": "FAIL", "boolean": "FAIL", "varchar": "abc", "date": "FAIL", "decimal(10,2)": "FAIL"},
    "'12'": {"smallint": "12", "int": "12", "bigint": "12", "double": "12", "varchar": "12", "date": "FAIL"},
    "true": {"boolean": "true", "varchar": "true", "int": "1?", "smallint": "1?", "bigint": "1?"},
    "date '2024-02-29'": {"date": "2024-02-29", "varchar": "2024-02-29", "int": "FAIL", "smallint": "FAIL", "bigint": "FAIL", "double": "FAIL", "boolean": "FAIL"},
    "null": {},
}


MULTI_TYPES = ["smallint", "int", "bigint", "double", "decimal(10,2)", "varchar", "boolean"]
# (no boolean literal: a VALUES list of integers and booleans is unified to INT, so `true` reaches a VARCHAR column as '1' and
#  alone as 'true' — both are faithful renderings, the property does not choose between them)
MULTI_LITS = ["1", "2.5", "0.25", "3000000000", "null", "'12'", "-7"]


def insert_cases():
    for ty, kind in COLTYPES.items():
        for constraint in ("", " not null", " primary key", "table-level primary key"):
            if "primary key" in constraint and ty in ("double", "boolean", "decimal(10,2)", "vector(3)", "interval"):
                continue
            for lit in LITS:
                yield {"type": ty, "constraint": constraint.strip(), "source": f"values ({lit})", "lit": lit}
            yield {"type": ty, "constraint": constraint.strip(), "source": "omitted", "lit": "null"}
            yield {"type": ty, "constraint": constraint.strip(), "source": "select null-producing", "lit": "null"}
            yield {"type": ty, "constraint": constraint.strip(), "source": "select bigint 3000000000", "lit": "3000000000"}
            yield {"type": ty, "constraint": constraint.strip(), "source": "select double 2.5", "lit": "2.5"}


def insert_script(c, engine):
    ty, cons = c["type"], c["constraint"]
    ddl = f"create table t(x {ty}, y int, primary key(x))" if cons.startswith("table-level") else f"create table t(x {ty}{' ' + cons if cons else ''}, y int)"
    steps = [{"sql": ddl},
             {"sql": "create table src(p bigint, q int, d double)"}, {"sql": "insert into src values (3000000000, null, 2.5)"}]
    if c["source"].startswith("values"):
        steps.append({"sql": f"insert into t values ({c['lit']}, 7)"})
    elif c["source"] == "omitted":
        steps.append({"sql": "insert into t(y) values (7)"})
    elif c["source"].startswith("select null"):
        steps.append({"sql": "insert into t select q, 7 from src"})
    elif c["source"].startswith("select double"):
        steps.append({"sql": "insert into t select d, 7 from src"})
    else:
        steps.append({"sql": "insert into t select p, 7 from src"})
    steps += [{"sql": "select x, y from t"}, {"sql": "select count(*) from t where x is null"}]
    if engine == "disk":
        steps += [{"op": "reopen"}, {"sql": "select x, y from t"}]
    return {"id": 0, "engine": engine, "opts": {"block": 64, "rowset": 1 << 20}, "steps": steps}


def judge_insert(chk, c, engine, r):
    case = dict(c, engine=engine)
    cid = core.case_id(case)
    if r.get("abort"):
        chk.fail(cid, "abort", case, r)
        return
    rs = r["results"]
    if any(U.status(x) != "rows" for x in rs[:3]):
        chk.skip("setup rejected")
        return
    ins, sel, nulls = rs[3], rs[4], rs[5]
    st = U.status(ins)
    nullable = c["constraint"] == ""
    tag = f"{c['type'].split('(')[0]}:{'nullable' if nullable else 'notnull'}"
    if st != "rows":
        if st in ("panic", "ok_with_task_panic") or (st.startswith("err") and "panicked" in json.dumps(ins)):
            chk.fail(cid, f"insert-panics@{tag}", case, ins, outcome="insert-panics")
            return
        # the INSERT failed: the table must be empty
        if U.is_rows(sel) and len(sel["rows"]) != 0:
            chk.fail(cid, f"failed-insert-stored-a-row@{tag}", case, sel)
            return
        # rejecting a value that converts losslessly is not a C16 violation (the property allows failing)
        chk.ok(cid, nontrivial=True, outcome="insert-rejected", sample={"case": case})
        return
    if not U.is_rows(sel) or len(sel["rows"]) != 1:
        chk.fail(cid, f"stored-row-unreadable@{tag}", case, sel)
        return
    kind = sel["cols"][0]
    val = sel["rows"][0][0]
    want_kind = COLTYPES[c["type"]]
    if kind != want_kind:
        chk.fail(cid, f"stored-type-differs@{tag}", case, {"declared": want_kind, "stored": kind})
        return
    if val is None and not nullable:
        chk.fail(cid, f"null-in-not-null-column@{tag}", case, sel, outcome="null-in-not-null")
        return
    if c["lit"] == "null":
        if val is not None:
            chk.fail(cid, f"null-silently-replaced@{tag}", case, {"stored": val}, outcome="null-replaced")
            return
    else:
        exp = LITS.get(c["lit"], {}).get(c["type"])
        if c["source"].startswith("select bigint"):
            exp = {"smallint": "FAIL", "int": "FAIL", "bigint": "3000000000", "double": "3000000000", "varchar": "3000000000"}.get(c["type"])
        if c["source"].startswith("select double"):
            exp = {"smallint": "FAIL", "int": "FAIL", "bigint": "FAIL", "double": "2.5", "varchar": "2.5", "decimal(10,2)": "2.50?"}.get(c["type"])
        if exp == "FAIL" and c["type"].startswith("decimal") and c["lit"] in ("1.255", "123456789012.5"):
            # stored unchanged, but it is not a DECIMAL(10,2) value
            chk.fail(cid, f"declared-precision-or-scale-not-enforced@{tag}", case, {"source": c["lit"], "stored": val}, outcome="scale-ignored")
            return
        if exp == "FAIL":
            chk.fail(cid, f"lossy-or-invalid-conversion-accepted@{tag}", case, {"source": c["lit"], "stored": val}, outcome="lossy-accepted")
            return
        if exp is not None and not exp.endswith("?") and val != exp:
            chk.fail(cid, f"stored-value-differs@{tag}", case, {"source": c["lit"], "stored": val, "expected": exp}, outcome="value-differs")
            return
    if engine == "disk":
        again = rs[-1]
        if not U.is_rows(again) or again["rows"] != sel["rows"] or again["cols"] != sel["cols"]:
            chk.fail(cid, f"stored-value-changes-on-reopen@{tag}", case, {"before": sel, "after": again})
            return
    chk.ok(cid, nontrivial=True, outcome="stored", sample={"case": case, "stored": val})


def run(tier, seed):
    chk = core.Check("C16", tier, "exploration",
                     "(a) every successfully executed corpus statement (databases x {memory, disk}): kinds of every returned chunk == statically derived output kinds, single width; "
                     "(b) INSERT enumeration: 8 column types x {nullable, NOT NULL, PRIMARY KEY} x {17 literals of all types (integers in and out of range, fractions, strings, booleans, dates), NULL, omitted column, INSERT..SELECT of NULL, of an out-of-range BIGINT and of a fractional DOUBLE} x {memory, disk (+reopen)}; "
                     "(c) multi-row VALUES: 7 column types x all triples over 7 literals (integer, fractions, out-of-range integer, NULL, string, boolean) in one INSERT vs three single-row INSERTs; "
                     "(d) INSERT with every permutation of a three-column list (VALUES / SELECT source): each value lands in the column it is named for; "
                     "a case = (statement, db, engine) resp. (type, constraint, source, engine); non-trivial = the statement executed / the insert was attempted", seed)
    # ---- (a)
    js = planutil.jobs(tier)
    if tier == "quick":
        js = [j for j in js if j[1]["stats"] == "real"]
    res = planutil.run_jobs(js)
    for (job, meta, chunk), r in zip(js, res):
        if r.get("abort") or not r.get("setup_ok"):
            continue        # C17 reports these
        for sql, x in zip(chunk, r["results"]):
            if "run" not in x:
                continue
            c = dict(meta, sql=sql, part="a")
            cid = core.case_id(c)
            run_, st = x["run"], x.get("static_opt")
            if sql.startswith(("insert", "delete", "explain", "create")):
                continue
            if len(run_["widths"]) > 1:
                chk.fail(cid, "ragged-result", c, run_)
            elif run_["kinds"] and any(k != st for k in run_["kinds"]):
                bad = [k for k in run_["kinds"] if k != st][0]
                pairs = sorted({f"{a}->{b}" for a, b in zip(st, bad) if a != b}) if len(st) == len(bad) else ["width"]
                chk.fail(cid, "runtime-type-differs:" + ",".join(pairs)[:60], c, {"static": st, "runtime": run_["kinds"]}, outcome="type-differs")
            else:
                chk.ok(cid, nontrivial=run_["rows"] > 0, outcome="types-agree", sample={"case": c, "types": st})
    # ---- (b)
    ics = list(insert_cases())
    for engine in ("mem", "disk"):
        scripts = [insert_script(c, engine) for c in ics]
        rs = runner.run_many("sql", scripts, timeout=120)
        for c, r in zip(ics, rs):
            judge_insert(chk, c, engine, r)
    # ---- (c) multi-row VALUES: the rows of one VALUES list are converted to a common type first; every row must end up as
    # it does when it is inserted alone (differential oracle: three single-row INSERTs), or the statement must fail
    mcs = [{"type": ty, "rows": list(t)} for ty in MULTI_TYPES for t in __import__("itertools").product(MULTI_LITS, repeat=3)]
    engines = ("mem", "disk") if tier == "thorough" else ("mem",)
    for engine in engines:
        scripts = []
        for c in mcs:
            ty, (l1, l2, l3) = c["type"], c["rows"]
            scripts.append({"id": 0, "engine": engine, "opts": {"block": 64, "rowset": 1 << 20}, "steps": [
                {"sql": f"create table m(id int, x {ty})"}, {"sql": f"create table s(id int, x {ty})"},
                {"sql": f"insert into m values (1, {l1}), (2, {l2}), (3, {l3})"},
                {"sql": f"insert into s values (1, {l1})"}, {"sql": f"insert into s values (2, {l2})"}, {"sql": f"insert into s values (3, {l3})"},
                {"sql": "select id, x from m order by id"}, {"sql": "select id, x from s order by id"}]})
        for c, r in zip(mcs, runner.run_many("sql", scripts, timeout=120)):
            case = dict(c, engine=engine, part="c")
            cid = core.case_id(case)
            tag = c["type"].split("(")[0]
            if r.get("abort"):
                chk.fail(cid, "abort", case, r)
                continue
            rs = r["results"]
            if any(U.status(x) != "rows" for x in rs[:2]) or not (U.is_rows(rs[6]) and U.is_rows(rs[7])):
                chk.machinery(f"multi-row setup failed: {json.dumps(rs)[:300]}")
                continue
            multi, singles = rs[2], rs[3:6]
            if U.status(multi) != "rows":
                if "panicked" in json.dumps(multi) or U.status(multi) in ("panic", "ok_with_task_panic"):
                    chk.fail(cid, f"insert-panics@multi-row:{tag}", case, multi, outcome="insert-panics")
                elif rs[6]["rows"]:
                    chk.fail(cid, f"failed-insert-stored-a-row@multi-row:{tag}", case, rs[6])
                else:
                    chk.ok(cid, nontrivial=True, outcome="multi-row-rejected", sample={"case": case})
                continue
            if any(U.status(x) != "rows" for x in singles):
                chk.fail(cid, f"lossy-or-invalid-conversion-accepted@multi-row:{tag}", case, {"multi_row": rs[6]["rows"], "single_rows": [x if U.status(x) != "rows" else "ok" for x in singles]}, outcome="lossy-accepted")
            elif rs[6]["rows"] != rs[7]["rows"] or rs[6]["cols"] != rs[7]["cols"]:
                chk.fail(cid, f"stored-value-differs@multi-row:{tag}", case, {"multi_row": rs[6]["rows"], "single_rows": rs[7]["rows"]}, outcome="value-differs")
            else:
                chk.ok(cid, nontrivial=True, outcome="multi-row-stored", sample={"case": case, "stored": rs[6]["rows"]})
    # ---- (d) INSERT with a column list that permutes the table's columns (every permutation of three columns of different
    # types, VALUES and SELECT sources): each value must land in the column it is named for
    import itertools as _it
    cols3 = [("a", "int not null", "2"), ("b", "varchar", "'7'"), ("c", "double", "1.5")]
    pscripts, pmeta = [], []
    for engine in ("mem", "disk"):
        for perm in _it.permutations(range(3)):
            names = ", ".join(cols3[i][0] for i in perm)
            vals = ", ".join(cols3[i][2] for i in perm)
            for src in ("values", "select"):
                steps = [{"sql": "create table r(" + ", ".join(f"{n} {t}" for n, t, _ in cols3) + ")"}, {"sql": "create table one(z int)"}, {"sql": "insert into one values (1)"},
                         {"sql": f"insert into r({names}) values ({vals})" if src == "values" else f"insert into r({names}) select {vals} from one"},
                         {"sql": "select a, b, c from r"}]
                pscripts.append({"id": 0, "engine": engine, "steps": steps})
                pmeta.append({"part": "d", "engine": engine, "column_list": names, "source": src})
    for case, r in zip(pmeta, runner.run_many("sql", pscripts, timeout=120)):
        cid = core.case_id(case)
        rs = r.get("results", [])
        if r.get("abort") or any(U.status(x) != "rows" for x in rs[:3]):
            chk.machinery(f"column-list setup failed: {json.dumps(rs)[:300]}")
        elif U.status(rs[3]) != "rows":
            chk.fail(cid, "insert-with-column-list-fails", case, rs[3])
        elif not U.is_rows(rs[4]) or U.decode(rs[4]) != [(2, "7", "1.5")]:
            chk.fail(cid, "value-stored-in-wrong-column", case, rs[4], outcome="wrong-column")
        else:
            chk.ok(cid, nontrivial=True, outcome="column-list-stored", sample={"case": case})
    chk.assumptions += ["expected stored values are given only where the conversion is unambiguous; a rejected INSERT is always acceptable"]
    return chk


def replay(path):
    d = json.load(open(path))
    c = d["case"]
    if c.get("part") == "a":
        for (job, meta, chunk) in planutil.jobs("thorough"):
            if meta == {k: c[k] for k in ("db", "engine", "layout", "stats")} and c["sql"] in chunk:
                job["stmts"] = [c["sql"]]
                print(json.dumps(runner.run_many("plan", [job])[0])[:3000])
                return 0
        return 2
    print(json.dumps(runner.run_many("sql", [insert_script(c, c["engine"])])[0])[:3000])
    return 0
