"""C11 — all physical implementations of an operator agree.
Exhaustive small-scope enumeration on hand-built physical plans executed by the real executor: for every pair of input
contents (all multisets of <= 2 rows over a 6-row universe with NULL and duplicate keys, plus chunk-crossing inputs of 1030
and 2050 rows), every join type, 1- and 2-column key lists and with/without a residual condition: nested-loop vs hash vs
merge join; hashagg vs sortagg vs simple agg over key lists and aggregate lists; limit(order) vs top-N."""
import itertools, json
from lib import core, runner

UNIV = [(None, 1, 1), (1, 1, 1), (1, None, 2), (2, 1, 1), (2, 1, 2), (None, None, 2)]
TYPES = ["inner", "left_outer", "right_outer", "full_outer", "semi", "anti"]
AGGS = [[["count(*)", 0]], [["count", 0], ["sum", 2]], [["min", 2], ["max", 0]], [["count-distinct", 0], ["sum", 0]], [["sum", 1], ["count", 1], ["count(*)", 0]]]
KEYSETS = [[], [0], [0, 1]]
ORDERS = [[[0, False]], [[0, True], [2, False]], [[2, True]], [[1, False], [0, False], [2, False]]]


def contents(maxrows):
    out = [[]]
    for n in range(1, maxrows + 1):
        out += [list(c) for c in itertools.combinations_with_replacement(UNIV, n)]
    return out


def big(n, salt):
    rows = []
    for i in range(n):
        k1 = None if i % 11 == 0 else (i * 7 + salt) % 40
        k2 = None if i % 13 == 0 else i % 3
        rows.append((k1, k2, i % 5))
    return rows


def build_jobs(tier):
    cs = contents(2 if tier == "quick" else 3)
    groups = {i: c for i, c in enumerate(cs)}
    gbig = {1000: big(1030, 1), 1001: big(2050, 3), 1002: big(40, 5)}
    groups.update(gbig)
    table = [[g] + list(r) for g, rows in groups.items() for r in rows]
    cases = []
    small = list(range(len(cs)))
    for gl, gr in itertools.product(small, small):
        for ty in TYPES:
            for nk in (1, 2):
                for resid in (False, True):
                    if resid and ty in ("left_outer", "right_outer", "full_outer"):
                        continue       # a residual cannot be expressed in hash/merge outer joins (the executor asserts cond == true)
                    cases.append({"op": "join", "type": ty, "nkeys": nk, "resid": resid, "gl": gl, "gr": gr})
    for gl, gr in [(1000, 1001), (1001, 1000), (1000, 1002), (1002, 1001), (1000, 0), (0, 1001)]:
        for ty in TYPES:
            for nk in (1, 2):
                cases.append({"op": "join", "type": ty, "nkeys": nk, "resid": False, "gl": gl, "gr": gr})
    for g in small + [1000, 1001]:
        for ks in KEYSETS:
            if not ks and not groups[g]:
                continue        # agg without keys vs hashagg([]) is only required to agree on non-empty inputs (one row vs none)
            for ag in AGGS:
                cases.append({"op": "agg", "keys": ks, "aggs": ag, "g": g})
        for od in ORDERS:
            pairs = [(None, 0), (0, 0), (1, 0), (2, 0), (1, 1), (2, 1), (None, 1), (5, 2)]
            if g in (1000, 1001):
                # limit + offset beyond one 1024-row processing window, on inputs larger than that
                pairs += [(1025, 0), (10, 1020), (10, 1100), (1500, 400), (None, 1500), (1024, 1), (2050, 0), (3000, 0)]
            for lim, off in pairs:
                cases.append({"op": "topn", "keys": od, "limit": lim, "offset": off, "g": g})
    nshards = 32
    jobs = []
    for i in range(nshards):
        jobs.append({"id": i, "tables": {"l": table, "r": table}, "cases": cases[i::nshards]})
    # the same join cases on key columns of DIFFERENT numeric types (INT keys on the left, BIGINT / SMALLINT on the right)
    jcases = [dict(c, mixed=True) for c in cases if c["op"] == "join"]
    for i in range(8):
        jobs.append({"id": 100 + i, "tables": {"l": table, "r": table}, "key_types": {"r": ["bigint", "smallint"]}, "cases": jcases[i::8]})
    return jobs, groups


def run(tier, seed):
    jobs, groups = build_jobs(tier)
    chk = core.Check("C11", tier, "exploration",
                     "joins: all pairs of input contents (multisets of <= %d rows over a 6-row universe with NULL / duplicate keys, + 1030/2050/40-row inputs) x 6 join types x {1,2} key columns x residual, with INT keys on both sides and with INT vs BIGINT/SMALLINT keys; "
                     "nested-loop vs hash vs merge(sorted inputs); aggregation: hashagg vs sortagg vs agg over 3 key lists x 6 aggregate lists; limit(order) vs topn over 4 key lists x 8 limit/offset pairs; "
                     "a case = one plan shape on one input; oracle: all implementations return the same multiset (top-N: same key sequence); non-trivial = at least one implementation returned rows" % (2 if tier == "quick" else 3), seed)
    res = runner.run_many("ops", jobs, timeout=3600, progress=8)
    for j, r in zip(jobs, res):
        if r.get("abort") or "results" not in r:
            chk.machinery(f"ops shard {j['id']} failed: {json.dumps(r)[:300]}")
            continue
        for c, x in zip(j["cases"], r["results"]):
            cid = core.case_id(c)
            impls = x["impls"]
            tag = c["op"] + (":" + c["type"] if c["op"] == "join" else "")
            bad = {k: v for k, v in impls.items() if "rows" not in v}
            good = {k: v for k, v in impls.items() if "rows" in v}
            if bad and good:
                k = sorted(bad)[0]
                chk.fail(cid, f"implementation-fails:{k}@{tag}", c, {k: bad[k]}, outcome="impl-fails")
                continue
            if bad and not good:
                k = sorted(bad)[0]
                chk.fail(cid, f"all-implementations-fail@{tag}", c, {k: bad[k]}, outcome="all-fail")
                continue
            names = sorted(good)
            ref = good[names[0]]
            diff = None
            for n in names[1:]:
                if c["op"] == "topn":
                    nk = len(c["keys"])
                    # compare the sequence of key values (ties may legitimately pick different rows)
                    cols = [k[0] for k in c["keys"]]
                    ka = [tuple(row.split(",")[i] for i in cols) for row in ref["seq"]]
                    kb = [tuple(row.split(",")[i] for i in cols) for row in good[n]["seq"]]
                    if ka != kb:
                        diff = (names[0], n, ka[:6], kb[:6])
                elif good[n]["rows"] != ref["rows"]:
                    diff = (names[0], n, ref["rows"][:6], good[n]["rows"][:6])
                if diff:
                    break
            if diff:
                chk.fail(cid, f"implementations-disagree:{diff[0]}-vs-{diff[1]}@{tag}", c, {"a": diff[2], "b": diff[3], "inputs": [groups.get(c.get("gl", c.get("g")), [])[:4], groups.get(c.get("gr"), [])[:4] if "gr" in c else None]}, outcome="disagree")
            else:
                chk.ok(cid, nontrivial=len(ref["rows"]) > 0, outcome=f"agree:{len(names)}impls", sample={"case": c, "rows": ref["rows"][:3]})
    chk.assumptions += ["plans are built programmatically (RecExpr) and run through executor::build on the memory engine; merge join / sortagg inputs are sorted by an `order` node",
                        "outer joins with a residual condition are not comparable (hash/merge join assert cond == true) and are excluded"]
    return chk


def replay(path):
    d = json.load(open(path))
    jobs, groups = build_jobs("thorough")
    j = dict(jobs[0], cases=[d["case"]])
    print(json.dumps(runner.run_many("ops", [j], timeout=600)[0])[:3000])
    return 0
