"""C14 — vectorised expression evaluation equals scalar SQL semantics.
Exhaustive small-scope enumeration: every operator/function of the list x operand combinations over boundary domains
(incl. NULL) laid out in batches of length L (around the 64-bit bitmap word boundary), on the memory engine (one chunk per
table) and the disk engine (64-byte blocks: several short batches). Each expression is evaluated (i) as a projection,
(ii) as a WHERE predicate, (iii) under AND/OR/NOT with another predicate (so raw bits under NULL slots matter), and
compared row by row with a scalar three-valued reference written in Python. Overflow / out-of-range casts must be errors;
constant expressions must fold to the value they have at run time."""
import itertools, json, re
from lib import core, runner, sqlutil as U

D = [None, 0, 1, -1, 2, 7]
S = [None, "", "x", "xy", "ab", "b"]
P = [None, True, False]
ERR = "ERR"


def like(s, pat):
    rx = "^" + "".join(".*" if c == "%" else "." if c == "_" else re.escape(c) for c in pat) + "$"
    return re.match(rx, s, re.S) is not None


def n2(f):
    """lift a 2-ary scalar function: NULL if any operand is NULL"""
    return lambda x, y: None if x is None or y is None else f(x, y)


def tdiv(a, b):
    return None if b == 0 else int(a / b)


def tmod(a, b):
    if b == 0:
        return None
    r = abs(a) % abs(b)
    return -r if a < 0 else r


def and3(x, y):
    if x is False or y is False:
        return False
    if x is None or y is None:
        return None
    return True


def or3(x, y):
    if x is True or y is True:
        return True
    if x is None or y is None:
        return None
    return False


def not3(x):
    return None if x is None else (not x)


# (sql, kind of result, reference(row)) ; row = dict(a,b,s,u,p,q)
def exprs():
    E = []
    ar = {"+": lambda x, y: x + y, "-": lambda x, y: x - y, "*": lambda x, y: x * y}
    for op, f in ar.items():
        E.append((f"a {op} b", "int", lambda r, f=f: n2(f)(r["a"], r["b"])))
    E.append(("a / b", "int", lambda r: n2(tdiv)(r["a"], r["b"])))
    E.append(("a % b", "int", lambda r: n2(tmod)(r["a"], r["b"])))
    E.append(("- a", "int", lambda r: None if r["a"] is None else -r["a"]))
    E.append(("a + b * 2", "int", lambda r: n2(lambda x, y: x + y * 2)(r["a"], r["b"])))
    cmp = {"=": lambda x, y: x == y, "<>": lambda x, y: x != y, "<": lambda x, y: x < y, "<=": lambda x, y: x <= y, ">": lambda x, y: x > y, ">=": lambda x, y: x >= y}
    for op, f in cmp.items():
        E.append((f"a {op} b", "bool", lambda r, f=f: n2(f)(r["a"], r["b"])))
        E.append((f"a + b {op} 1", "bool", lambda r, f=f: n2(f)(n2(lambda x, y: x + y)(r["a"], r["b"]), 1)))
    for op in ("=", "<", ">="):
        E.append((f"s {op} u", "bool", lambda r, f=cmp[op]: n2(f)(r["s"], r["u"])))
    E.append(("a is null", "bool", lambda r: r["a"] is None))
    E.append(("a is not null", "bool", lambda r: r["a"] is not None))
    E.append(("a + b is null", "bool", lambda r: r["a"] is None or r["b"] is None))
    E.append(("a in (1, 2)", "bool", lambda r: None if r["a"] is None else r["a"] in (1, 2)))
    E.append(("a between 0 and 2", "bool", lambda r: None if r["a"] is None else 0 <= r["a"] <= 2))
    E.append(("a not in (1, 7)", "bool", lambda r: None if r["a"] is None else r["a"] not in (1, 7)))
    E.append(("p", "bool", lambda r: r["p"]))          # a bare boolean column as the whole condition
    E.append(("p and q", "bool", lambda r: and3(r["p"], r["q"])))
    E.append(("p or q", "bool", lambda r: or3(r["p"], r["q"])))
    E.append(("not p", "bool", lambda r: not3(r["p"])))
    # the untyped NULL literal next to a column (the type checker accepts it)
    E.append(("null and q", "bool", lambda r: and3(None, r["q"])))
    E.append(("q and null", "bool", lambda r: and3(r["q"], None)))
    E.append(("null or q", "bool", lambda r: or3(None, r["q"])))
    E.append(("p or null", "bool", lambda r: or3(r["p"], None)))
    E.append(("(null and q) or p", "bool", lambda r: or3(and3(None, r["q"]), r["p"])))
    E.append(("a = null", "bool", lambda r: None))
    E.append(("a + null", "int", lambda r: None))
    E.append(("p = q", "bool", lambda r: n2(lambda x, y: x == y)(r["p"], r["q"])))
    E.append(("p is null", "bool", lambda r: r["p"] is None))
    E.append(("a > 0 and b > 0", "bool", lambda r: and3(n2(cmp[">"])(r["a"], 0), n2(cmp[">"])(r["b"], 0))))
    E.append(("a > 0 or b > 0", "bool", lambda r: or3(n2(cmp[">"])(r["a"], 0), n2(cmp[">"])(r["b"], 0))))
    E.append(("not (a > 0) or b is null", "bool", lambda r: or3(not3(n2(cmp[">"])(r["a"], 0)), r["b"] is None)))
    E.append(("(a > 0) = (b > 0)", "bool", lambda r: n2(lambda x, y: x == y)(n2(cmp[">"])(r["a"], 0), n2(cmp[">"])(r["b"], 0))))
    E.append(("case when a > b then a else b end", "int", lambda r: r["a"] if n2(cmp[">"])(r["a"], r["b"]) is True else r["b"]))
    E.append(("case when a is null then b else a end", "int", lambda r: r["b"] if r["a"] is None else r["a"]))
    E.append(("case when p then a end", "int", lambda r: r["a"] if r["p"] is True else None))
    E.append(("case when a = 1 then 10 when a = 2 then 20 else b end", "int", lambda r: 10 if r["a"] == 1 else 20 if r["a"] == 2 else r["b"]))
    E.append(("case when q then b else null end", "int", lambda r: r["b"] if r["q"] is True else None))
    # several WHEN branches that can be true for the same row: the first one wins (searched and simple form)
    E.append(("case when a > 0 then 10 when a > -5 then 20 when a is null then 30 else 40 end", "int",
              lambda r: 30 if r["a"] is None else 10 if r["a"] > 0 else 20 if r["a"] > -5 else 40))
    E.append(("case when p then 1 when q then 2 when p is null then 3 end", "int",
              lambda r: 1 if r["p"] is True else 2 if r["q"] is True else 3 if r["p"] is None else None))
    E.append(("case a when 1 then 10 when 1 then 20 when b then 30 else 40 end", "int",
              lambda r: 10 if r["a"] == 1 else 30 if (r["a"] is not None and r["a"] == r["b"]) else 40))
    E.append(("case when s = 'x' then 'first' when s like 'x%' then 'second' else u end", "str",
              lambda r: "first" if r["s"] == "x" else "second" if (r["s"] is not None and r["s"].startswith("x")) else r["u"]))
    E.append(("s || u", "str", lambda r: n2(lambda x, y: x + y)(r["s"], r["u"])))
    for pat in ("x%", "%", "", "_%", "%b", "x_"):
        E.append((f"s like '{pat}'", "bool", lambda r, pat=pat: None if r["s"] is None else like(r["s"], pat)))
        E.append((f"s || u like '{pat}'", "bool", lambda r, pat=pat: None if r["s"] is None or r["u"] is None else like(r["s"] + r["u"], pat)))
    E.append(("replace(s, 'x', 'yy')", "str", lambda r: None if r["s"] is None else r["s"].replace("x", "yy")))
    E.append(("cast(a as bigint)", "int", lambda r: r["a"]))
    E.append(("cast(a as smallint)", "int", lambda r: r["a"]))
    E.append(("cast(a as varchar)", "str", lambda r: None if r["a"] is None else str(r["a"])))
    E.append(("cast(a as double)", "float", lambda r: r["a"]))
    E.append(("cast(a + b as boolean)", "bool", lambda r: None if r["a"] is None or r["b"] is None else (r["a"] + r["b"]) != 0))
    E.append(("cast(p as int)", "int", lambda r: None if r["p"] is None else int(r["p"])))
    return E


def rows_for(L, nulls=None):
    """nulls = None: every column cycles through its domain (a NULL in every 64-row bitmap word);
    nulls = set of row positions: NULL (in every column) only there, every other row is NULL-free - so that a bitmap
    word WITH a NULL is followed or preceded by words WITHOUT any"""
    off = (L * 7) % 36
    out = []
    for i in range(L):
        j = i + off
        if nulls is None:
            out.append({"i": i, "a": D[j % 6], "b": D[(j // 6) % 6], "s": S[(j * 5 + 1) % 6], "u": S[(j // 3) % 6], "p": P[j % 3], "q": P[(j // 3) % 3]})
        elif i in nulls:
            out.append({"i": i, "a": None, "b": None, "s": None, "u": None, "p": None, "q": None})
        else:
            out.append({"i": i, "a": D[1 + j % 5], "b": D[1 + (j // 5) % 5], "s": S[1 + (j * 5 + 1) % 5], "u": S[1 + (j // 3) % 5], "p": P[1 + j % 2], "q": P[1 + (j // 2) % 2]})
    return out


SPARSE = {"n5": {5}, "n69": {69}, "n5+133": {5, 133}, "n63+64": {63, 64}, "n127": {127}}


def lens(tier):
    return [1, 36, 63, 64, 65, 130] if tier == "quick" else list(range(0, 201, 1))


def script(L, engine, E, nulls=None):
    rows = rows_for(L, nulls)
    steps = [{"sql": "create table t(i int, a int, b int, s varchar, u varchar, p boolean, q boolean)"}]
    if rows:
        steps.append({"sql": "insert into t values " + ", ".join("(" + ", ".join(U.sql_lit(r[k]) for k in ("i", "a", "b", "s", "u", "p", "q")) + ")" for r in rows)})
    n0 = len(steps)
    for sql, kind, f in E:
        steps.append({"sql": f"select i, {sql} from t"})
        if kind == "bool":
            steps.append({"sql": f"select i from t where {sql}"})
            steps.append({"sql": f"select i from t where ({sql}) or q"})
            steps.append({"sql": f"select i from t where not ({sql})"})
            steps.append({"sql": f"select i from t where ({sql}) and p is not null"})
    return {"id": 0, "engine": engine, "opts": {"block": 64, "rowset": 1 << 20}, "steps": steps}, n0, rows


def normv(v, kind):
    if v is None:
        return None
    if kind == "bool":
        return bool(v)
    if kind in ("int",):
        return int(v)
    if kind == "float":
        return float(v)
    return v


I32 = (-2147483648, 2147483647)
I64 = (-(1 << 63), (1 << 63) - 1)
I16 = (-32768, 32767)
DM = [None, 0, 1, -1, 2147483647, -2147483648]


class Ovf(Exception):
    pass


def rng(v, r):
    if v is None:
        return None
    if not (r[0] <= v <= r[1]):
        raise Ovf()
    return v


def x_add(x, y, r=I32):
    return None if x is None or y is None else rng(x + y, r)


def x_sub(x, y, r=I32):
    return None if x is None or y is None else rng(x - y, r)


def x_mul(x, y, r=I32):
    return None if x is None or y is None else rng(x * y, r)


def x_neg(x, r=I32):
    return None if x is None else rng(-x, r)


def x_div(x, y, r=I32):
    if x is None or y is None or y == 0:
        return None
    return rng(int(x / y) if abs(x) < (1 << 52) else (abs(x) // abs(y)) * (1 if (x < 0) == (y < 0) else -1), r)


def x_mod(x, y, r=I32):
    if x is None or y is None or y == 0:
        return None
    rng(x_div(x, y, I64), r)       # MIN % -1 overflows like MIN / -1 in the checked implementation; both an error or 0 are accepted below
    m = abs(x) % abs(y)
    return -m if x < 0 else m


def extreme_exprs():
    """(sql, reference(a, b) -> value | None; raises Ovf where SQL requires an error)"""
    return [
        ("a + b", lambda a, b: x_add(a, b)),
        ("a - b", lambda a, b: x_sub(a, b)),
        ("a * b", lambda a, b: x_mul(a, b)),
        ("- a", lambda a, b: x_neg(a)),
        ("a / b", lambda a, b: x_div(a, b)),
        ("a % b", lambda a, b: x_mod(a, b)),
        ("(a + b) + 1", lambda a, b: x_add(x_add(a, b), 1)),
        ("(a - b) - 1", lambda a, b: x_sub(x_sub(a, b), 1)),
        ("(a * b) * 2", lambda a, b: x_mul(x_mul(a, b), 2)),
        ("- (a + b)", lambda a, b: x_neg(x_add(a, b))),
        ("(a + b) / 2", lambda a, b: x_div(x_add(a, b), 2)),
        ("(a - b) * (a - b)", lambda a, b: x_mul(x_sub(a, b), x_sub(a, b))),
        ("a + b + a", lambda a, b: x_add(x_add(a, b), a)),
        ("(a + b) > 0", lambda a, b: None if x_add(a, b) is None else x_add(a, b) > 0),
        ("(a + b) is null", lambda a, b: x_add(a, b) is None),
        ("cast(a as bigint) + b", lambda a, b: x_add(a, b, I64)),
        ("cast(a as bigint) * b", lambda a, b: x_mul(a, b, I64)),
        ("cast(a as bigint) * cast(b as bigint) * 4294967296", lambda a, b: x_mul(x_mul(a, b, I64), 4294967296, I64)),
        ("cast(a as smallint)", lambda a, b: rng(a, I16)),
        ("cast(a + b as smallint)", lambda a, b: rng(x_add(a, b), I16)),
        ("case when b is null then a else 0 end + 1", lambda a, b: x_add(a if b is None else 0, 1)),
        ("case when a + b > 0 then 1 else 2 end", lambda a, b: 1 if (x_add(a, b) or 0) > 0 else 2),
    ]


OVERFLOW = [
    ("select a + b from o", [(2147483647, 1)]), ("select a - b from o", [(-2147483648, 1)]), ("select a * b from o", [(65536, 65536)]),
    ("select - a from o", [(-2147483648, 0)]), ("select cast(a as smallint) from o", [(70000, 0)]), ("select a / b from o", [(-2147483648, -1)]),
    ("select sum(a) from o", [(2147483647, 0), (2147483647, 0)]), ("select a % b from o", [(5, 0)]),
]
CONSTS = ["null", "0", "1", "-1", "2", "true", "false"]


MATRIX_COLS = [("si", "smallint", ["1", "-2", "null"]), ("i", "int", ["3", "0", "null"]), ("bi", "bigint", ["10000000000", "1", "null"]),
               ("d", "double", ["1.5", "-0.5", "null"]), ("e", "decimal(10,2)", ["2.50", "1.00", "null"]), ("p", "boolean", ["true", "false", "null"]),
               ("s", "varchar", ["'2024-01-05'", "'7'", "null"]), ("dt", "date", ["date '2024-01-05'", "date '2023-12-31'", "null"]),
               ("ts", "timestamp", ["timestamp '2024-01-05 00:00:01'", "timestamp '2023-01-01 10:00:00'", "null"]),
               ("iv", "interval", ["interval '1' day", "interval '2' month", "null"]), ("bl", "blob", ["'ab'", "'7'", "null"])]
MATRIX_LITS = [("1", "int-literal"), ("1.5", "decimal-literal"), ("'2024-01-01'", "string-literal"), ("null", "null-literal"), ("true", "bool-literal"),
               ("date '2024-01-01'", "date-literal"), ("interval '1' day", "interval-literal")]
MATRIX_OPS = ["+", "-", "*", "/", "%", "=", "<>", "<", "<=", ">", ">=", "and", "or", "||", "like"]
MIRROR = {"=": "=", "<>": "<>", "<": ">", ">": "<", "<=": ">=", ">=": "<="}
MATRIX_SETUP = 4
MATRIX_DONE = {}


def operand_type(x):
    for n, t, _ in MATRIX_COLS:
        if x == n:
            return t.split("(")[0]
    return dict(MATRIX_LITS)[x]


def matrix_scripts():
    operands = [c[0] for c in MATRIX_COLS] + [l[0] for l in MATRIX_LITS]
    pairs = [(x, y) for x in operands for y in operands if not (x in dict(MATRIX_LITS) and y in dict(MATRIX_LITS))]
    # the mirrored operator is evaluated first, so that the mirror oracle finds its results
    order = ["=", "<>", ">", ">=", "<", "<=", "+", "-", "*", "/", "%", "and", "or", "||", "like"]
    return [(op, pairs) for op in order]


MATRIX_TARGETS = ["smallint", "int", "bigint", "double", "decimal(10,2)", "decimal", "boolean", "varchar", "date", "timestamp", "interval", "blob"]
MATRIX_UNARY = ["- {x}", "not {x}", "{x} is null", "{x} is not null", "extract(year from {x})", "extract(day from {x})", "case when {x} is null then null else {x} end",
                "{x} in ({x})", "coalesce({x}, {x})", "nullif({x}, {x})", "count({x})", "min({x})", "max({x})", "sum({x})", "avg({x})", "count(distinct {x})",
                "replace({x}, {x}, {x})", "replace('abc', 'b', {x})", "repeat({x}, 2)", "repeat('ab', {x})", "substring({x} from 1 for 2)", "substring('abc' from {x} for 1)",
                "substring('abc' from 1 for {x})", "first({x})", "last({x})", "{x} between {x} and {x}", "{x} not between 1 and 2", "{x} is distinct from {x}",
                "+ {x}", "extract(hour from {x})", "extract(month from {x})", "cast({x} as varchar) || 'z'", "{x} not like 'a%'", "not ({x} = {x})"]


def unary_matrix():
    """(label, [(sql, operand, form)]) : casts to every type and unary operators / functions / aggregates of every operand"""
    operands = [c[0] for c in MATRIX_COLS] + [l[0] for l in MATRIX_LITS]
    casts = [(f"select cast({x} as {t}) from ty", x, f"cast as {t.split('(')[0]}") for x in operands for t in MATRIX_TARGETS]
    unary = [("select " + f.format(x=x) + " from ty", x, f.format(x="x")) for x in operands for f in MATRIX_UNARY]
    return [("cast", casts), ("unary", unary)]


def matrix_script(m):
    op, pairs = m
    if op in ("cast", "unary"):
        steps = matrix_script(("=", []))["steps"]
        return {"id": 0, "engine": "mem", "steps": steps + [{"sql": q[0]} for q in pairs]}
    steps = [{"sql": "create table ty(" + ", ".join(f"{n} {t}" for n, t, _ in MATRIX_COLS) + ")"}]
    for k in range(3):
        steps.append({"sql": "insert into ty values (" + ", ".join(v[k] for _, _, v in MATRIX_COLS) + ")"})
    assert len(steps) == MATRIX_SETUP
    steps += [{"sql": f"select {x} {op} {y} from ty"} for x, y in pairs]
    return {"id": 0, "engine": "mem", "steps": steps}


def const_exprs():
    ints = ["null", "0", "1", "-1", "2"]
    bools = ["null", "true", "false"]
    out = []
    for x, y in itertools.product(ints, ints):
        for op in ("+", "-", "*", "/", "%", "=", "<", ">="):
            out.append((f"{x} {op} {y}", "a", "b", x, y, "int"))
    for x, y in itertools.product(bools, bools):
        for op in ("and", "or", "="):
            out.append((f"{x} {op} {y}", "p", "q", x, y, "bool"))
    for x in bools:
        out.append((f"not {x}", "p", "q", x, "null", "bool"))
    return out


def run(tier, seed):
    E = exprs()
    chk = core.Check("C14", tier, "exploration",
                     f"{len(E)} scalar expressions (arithmetic, comparison, AND/OR/NOT, IS NULL, CASE, IN, BETWEEN, LIKE, ||, replace, CAST) over columns cycling through boundary domains with NULLs, "
                     f"batch lengths {lens(tier) if tier == 'quick' else '0..200'} x {{memory (one chunk), disk (64-byte blocks)}}, plus {len(SPARSE)} sparse NULL layouts (NULLs in one 64-row bitmap word only, the other words NULL-free); each as projection and, for booleans, as WHERE / (e) OR q / NOT (e) / (e) AND ..; "
                     f"row-by-row comparison with a scalar three-valued reference; plus {len(extreme_exprs())} nested arithmetic/cast expressions over all pairs of {{NULL,0,+-1,INT MIN,INT MAX}} (defined rows in one batch == reference, every overflowing row alone must be an error); plus casts of DOUBLE / DECIMAL / VARCHAR values at the exact limits of SMALLINT / INT / BIGINT (exact value or error, at run time and folded); plus overflow/out-of-range cases that must be errors, and all binary constant expressions over {{null,0,1,-1,2}} / {{null,true,false}}: folded value == run-time value == reference; "
                     "a case = (expression, form, batch length, engine); non-trivial = batch has >= 1 row", seed)
    items = []
    for L in lens(tier):
        for engine in ("mem", "disk"):
            if tier == "quick" and engine == "disk" and L not in (36, 130):
                continue
            items.append((L, engine, None) + script(L, engine, E))
    # sparse NULL patterns: 200-row batches (memory: one chunk) whose NULLs sit in one bitmap word only
    for name, nulls in SPARSE.items():
        for L in ((200,) if tier == "quick" else (130, 192, 200)):
            items.append((L, "mem", name) + script(L, "mem", E, nulls))
    res = runner.run_many("sql", [it[3] for it in items], timeout=600, progress=50)
    for (L, engine, pattern, s, n0, rows), r in zip(items, res):
        base = {"L": L, "engine": engine}
        if pattern:
            base["nulls"] = pattern
        if r.get("abort"):
            chk.fail(core.case_id(base), "abort", base, r)
            continue
        rs = r["results"]
        k = n0
        for sql, kind, f in E:
            ref = {row["i"]: f(row) for row in rows}
            forms = [("proj", rs[k])]
            k += 1
            if kind == "bool":
                forms += [("where", rs[k]), ("or-q", rs[k + 1]), ("not", rs[k + 2]), ("and", rs[k + 3])]
                k += 4
            for form, x in forms:
                c = dict(base, expr=sql, form=form)
                cid = core.case_id(c)
                tag = sql.split("(")[0].strip() if sql.startswith(("cast", "case", "replace")) else ("like" if " like " in sql else "expr")
                if not U.is_rows(x):
                    chk.fail(cid, f"evaluation-fails:{U.status(x).split(':')[0]}@{tag}:{form}", c, x, outcome="fails")
                    continue
                got = U.decode(x)
                if form == "proj":
                    gm = {g[0]: g[1] for g in got}
                    bad = [(i, gm.get(i, "MISSING"), ref[i]) for i in ref if normv(gm.get(i, "MISSING"), kind) != normv(ref[i], kind)]
                    if len(got) != len(rows):
                        bad.append(("rowcount", len(got), len(rows)))
                else:
                    rowmap = {row["i"]: row for row in rows}
                    if form == "where":
                        want = {i for i in ref if ref[i] is True}
                    elif form == "or-q":
                        want = {i for i in ref if or3(ref[i], rowmap[i]["q"]) is True}
                    elif form == "not":
                        want = {i for i in ref if not3(ref[i]) is True}
                    else:
                        want = {i for i in ref if and3(ref[i], rowmap[i]["p"] is not None) is True}
                    gotset = {g[0] for g in got}
                    bad = sorted(gotset ^ want)
                if bad:
                    chk.fail(cid, f"wrong-value@{tag}:{form}", c, {"first_bad": bad[:5], "n_bad": len(bad)}, outcome="wrong")
                else:
                    chk.ok(cid, nontrivial=L > 0, outcome="ok:" + form, sample={"case": c})
    # ---- extreme domain: nested arithmetic over {NULL, 0, +-1, MIN, MAX}: rows whose scalar value is defined are evaluated in
    # one batch (NULL rows next to MIN/MAX rows: raw bits under NULL slots must not matter); every row that overflows is
    # evaluated alone and must be an error, not a panic and not a wrapped value
    XE = extreme_exprs()
    pairs = [(a, b) for a in DM for b in DM]
    scripts, meta = [], []
    for sql, f in XE:
        good, bad = [], []
        for i, (a, b) in enumerate(pairs):
            try:
                good.append((i, a, b, f(a, b)))
            except Ovf:
                bad.append((i, a, b))
        for engine in ("mem", "disk"):
            steps = [{"sql": "create table m(i int, a int, b int)"}, {"sql": U.insert_sql("m", [(i, a, b) for (i, a, b, _) in good])},
                     {"sql": f"select i, {sql} from m"}]
            scripts.append({"id": 0, "engine": engine, "opts": {"block": 64, "rowset": 1 << 20}, "steps": steps})
            meta.append(("batch", sql, engine, good))
        for (i, a, b) in bad:
            steps = [{"sql": "create table m(i int, a int, b int)"}, {"sql": U.insert_sql("m", [(i, a, b)])}, {"sql": f"select i, {sql} from m"}]
            scripts.append({"id": 0, "engine": "mem", "steps": steps})
            meta.append(("ovf", sql, "mem", (a, b)))
    for (kind_, sql, engine, info), r in zip(meta, runner.run_many("sql", scripts, timeout=120)):
        x = r["results"][-1] if not r.get("abort") else r
        if kind_ == "batch":
            c = {"extreme": sql, "engine": engine}
            cid = core.case_id(c)
            if not U.is_rows(x):
                chk.fail(cid, "spurious-error-on-defined-rows", c, x, outcome="fails")
                continue
            gm = {g[0]: g[1] for g in U.decode(x)}
            badrows = [(i, a, b, gm.get(i, "MISSING"), v) for (i, a, b, v) in info
                       if (gm.get(i, "MISSING") if not isinstance(gm.get(i), bool) else bool(gm.get(i))) != v and not (sql == "a % b" and v == 0 and gm.get(i) == 0)]
            if badrows or len(gm) != len(info):
                chk.fail(cid, "wrong-value@extreme", c, {"first_bad": badrows[:5], "n_bad": len(badrows), "rows": len(gm)}, outcome="wrong")
            else:
                chk.ok(cid, outcome="ok:extreme-batch", sample={"case": c})
        else:
            c = {"extreme": sql, "row": list(info)}
            cid = core.case_id(c)
            st = U.status(x)
            mod_ok = sql == "a % b" and U.is_rows(x) and U.decode(x)[0][1] == 0      # MIN % -1 = 0 is also a correct answer
            if (st.startswith("err") and "panicked" not in json.dumps(x)) or mod_ok:
                chk.ok(cid, outcome="overflow-reported")
            else:
                chk.fail(cid, "overflow-not-an-error:extreme", c, x, outcome="overflow")
    # ---- casts at the exact limits of the integer types: every value alone (error or exact value) and the castable ones in a batch
    import math
    from decimal import Decimal as Dec
    targets = {"smallint": I16, "int": I32, "bigint": I64}
    dbl = [2.0 ** 63, -(2.0 ** 63), 2.0 ** 63 - 1024, -(2.0 ** 63) - 2048, 2.0 ** 31, 2.0 ** 31 - 1, -(2.0 ** 31), -(2.0 ** 31) - 1, 32767.0, 32768.0, -32768.0, -32769.0,
           32767.9, -32768.9, 0.5, -0.5, 1e300, -1e300]
    decs = ["9223372036854775807", "9223372036854775808", "-9223372036854775808", "-9223372036854775809", "2147483647", "2147483648", "-2147483649", "32767", "32768", "-32769", "32767.5"]
    cases_ = []
    for tname, rng_ in targets.items():
        for v in dbl:
            t = math.trunc(v)
            exp = t if rng_[0] <= t <= rng_[1] else ERR
            cases_.append((f"cast(cast('{v!r}' as double) as {tname})", exp, {"cast": "double->" + tname, "value": repr(v)}))
        for s_ in decs:
            d = Dec(s_)
            exp = int(d) if d == d.to_integral_value() and rng_[0] <= int(d) <= rng_[1] else (ERR if not (rng_[0] <= int(d) <= rng_[1]) else "ANY")
            cases_.append((f"cast(cast('{s_}' as decimal) as {tname})", exp, {"cast": "decimal->" + tname, "value": s_}))
            exp2 = int(d) if d == d.to_integral_value() and rng_[0] <= int(d) <= rng_[1] else ERR
            cases_.append((f"cast('{s_}' as {tname})", exp2, {"cast": "varchar->" + tname, "value": s_}))
    sc = [{"id": 0, "engine": "mem", "steps": [{"sql": "create table one(x int)"}, {"sql": "insert into one values (1)"},
                                             {"sql": f"select {e} from one"}, {"sql": f"select {e}"}]} for e, _, _ in cases_]
    for (e, exp, c), r in zip(cases_, runner.run_many("sql", sc, timeout=120)):
        for form, x in (("runtime", r["results"][2]), ("folded", r["results"][3])) if not r.get("abort") else (("abort", r),):
            cc = dict(c, form=form)
            cid = core.case_id(cc)
            st = U.status(x)
            if exp == ERR:
                if st.startswith("err") and "panicked" not in json.dumps(x):
                    chk.ok(cid, outcome="cast-out-of-range-reported")
                else:
                    chk.fail(cid, "out-of-range-cast-not-an-error", cc, x, outcome="cast")
            elif exp == "ANY":
                if st in ("rows",) or (st.startswith("err") and "panicked" not in json.dumps(x)):
                    chk.ok(cid, outcome="cast-fraction")
                else:
                    chk.fail(cid, "cast-fails", cc, x, outcome="cast")
            else:
                got = U.decode(x)[0][0] if U.is_rows(x) and x["rows"] else st
                if got == exp:
                    chk.ok(cid, outcome="cast-exact")
                else:
                    chk.fail(cid, "cast-wrong-value", cc, {"got": got, "want": exp}, outcome="cast")
    # ---- DOUBLE next to DECIMAL: huge / infinite doubles (and such raw values under NULL slots) in casts and comparisons
    fd_rows = [(1, "1.5", "1.5"), (2, "cast('1e300' as double)", "2.5"), (3, "null", "null"), (4, "cast('-1e300' as double)", "-0.01"), (5, "2.5", "12345678.90"), (6, "null", "1.00"), (7, "0.25", "null")]
    fd_val = {1: (1.5, 1.5), 2: (1e300, 2.5), 3: (None, None), 4: (-1e300, -0.01), 5: (2.5, 12345678.90), 6: (None, 1.0), 7: (0.25, None)}
    inf = float("inf")

    def big(x):          # d * d overflows to infinity for the huge values
        return None if x is None else (inf if abs(x) > 1e154 else x * x)
    fd_exprs = [
        ("d > e", lambda d, e: None if d is None or e is None else d > e),
        ("d = e", lambda d, e: None if d is None or e is None else d == e),
        ("e <= d", lambda d, e: None if d is None or e is None else e <= d),
        ("d * d > e", lambda d, e: None if d is None or e is None else big(d) > e),
        ("(d * d) is null", lambda d, e: d is None),
        ("case when d * d > e then 1 else 0 end", lambda d, e: 1 if (d is not None and e is not None and big(d) > e) else 0),
    ]
    steps = [{"sql": "create table fd(i int, d double, e decimal(10,2))"}] + [{"sql": f"insert into fd values ({i}, {d}, {e})"} for i, d, e in fd_rows]
    n0 = len(steps)
    for sql, _ in fd_exprs:
        steps.append({"sql": f"select i, {sql} from fd"})
    steps.append({"sql": "select i from fd where d > e"})
    steps.append({"sql": "select i, cast(d as decimal) from fd where i in (1, 5, 7)"})
    steps.append({"sql": "select i, cast(d as decimal) from fd where i = 2"})
    steps.append({"sql": "select i, cast(d * d as decimal) from fd where i = 4"})
    for engine in ("mem", "disk"):
        r = runner.run_many("sql", [{"id": 0, "engine": engine, "opts": {"block": 64, "rowset": 1 << 20}, "steps": steps}], timeout=120)[0]
        rs = r.get("results", [])
        if r.get("abort") or any(U.status(x) != "rows" for x in rs[:n0]):
            chk.machinery(f"double/decimal setup failed on {engine}: {json.dumps(rs[:n0])[:300]}")
            continue
        for k, (sql, f) in enumerate(fd_exprs):
            c = {"fd": sql, "engine": engine}
            cid = core.case_id(c)
            x = rs[n0 + k]
            if not U.is_rows(x):
                chk.fail(cid, "evaluation-fails@double-decimal", c, x, outcome="fails")
                continue
            got = {g[0]: (bool(g[1]) if isinstance(g[1], bool) else g[1]) for g in U.decode(x)}
            bad = [(i, got.get(i, "MISSING"), f(*fd_val[i])) for i in fd_val if got.get(i, "MISSING") != f(*fd_val[i])]
            if bad:
                chk.fail(cid, "wrong-value@double-decimal", c, {"first_bad": bad[:4]}, outcome="wrong")
            else:
                chk.ok(cid, outcome="ok:double-decimal", sample={"case": c})
        base = n0 + len(fd_exprs)
        c = {"fd": "where d > e", "engine": engine}
        want = sorted(i for i, (d, e) in fd_val.items() if d is not None and e is not None and d > e)
        if U.is_rows(rs[base]) and sorted(g[0] for g in U.decode(rs[base])) == want:
            chk.ok(core.case_id(c), outcome="ok:double-decimal")
        else:
            chk.fail(core.case_id(c), "wrong-value@double-decimal", c, rs[base], outcome="wrong")
        c = {"fd": "cast(d as decimal), representable", "engine": engine}
        if U.is_rows(rs[base + 1]) and len(rs[base + 1]["rows"]) == 3:
            chk.ok(core.case_id(c), outcome="ok:double-decimal")
        else:
            chk.fail(core.case_id(c), "evaluation-fails@double-decimal", c, rs[base + 1], outcome="fails")
        for off, what in ((2, "cast(1e300 as decimal)"), (3, "cast(inf as decimal)")):
            c = {"fd": what, "engine": engine}
            x = rs[base + off]
            if U.status(x).startswith("err") and "panicked" not in json.dumps(x):
                chk.ok(core.case_id(c), outcome="cast-out-of-range-reported")
            else:
                chk.fail(core.case_id(c), "out-of-range-cast-not-an-error", c, x, outcome="cast")
    # ---- comparisons between numeric types of different widths, with values beyond the narrower type's range (the narrower
    # operand must be widened, never the wider one narrowed): all pairs of boundary values of two columns, and column vs literal
    MW = {"si": ("smallint", [0, 1, -1, 32767, -32768]),
          "i": ("int", [0, 1, -1, 32767, 32768, -32769, 65537, -65535, 100000, 2147483647, -2147483648]),
          "bi": ("bigint", [0, 1, -1, 65537, 2147483648, -2147483649, 4294967297, -4294967295, 9223372036854775807])}
    pyop = {"=": lambda x, y: x == y, "<>": lambda x, y: x != y, "<": lambda x, y: x < y, "<=": lambda x, y: x <= y, ">": lambda x, y: x > y, ">=": lambda x, y: x >= y}
    mw_scripts, mw_meta = [], []
    for (ca, cb) in [("si", "i"), ("i", "si"), ("si", "bi"), ("bi", "si"), ("i", "bi"), ("bi", "i")]:
        pairs_ = [(x, y) for x in MW[ca][1] for y in MW[cb][1]]
        steps = [{"sql": f"create table mw(id int, x {MW[ca][0]}, y {MW[cb][0]})"}]
        for k in range(0, len(pairs_), 25):
            steps.append({"sql": "insert into mw values " + ", ".join(f"({k + j}, {x}, {y})" for j, (x, y) in enumerate(pairs_[k:k + 25]))})
        n0 = len(steps)
        qs_ = []
        for op in pyop:
            qs_.append((f"select id, x {op} y from mw", "proj", op, None))
            qs_.append((f"select id from mw where x {op} y", "filter", op, None))
            for lit_ in (MW[cb][1][-1], MW[cb][1][-2], MW[cb][1][4] if len(MW[cb][1]) > 4 else 1):
                qs_.append((f"select id from mw where x {op} {lit_}", "filter-lit", op, lit_))
        steps += [{"sql": q_[0]} for q_ in qs_]
        mw_scripts.append({"id": 0, "engine": "mem", "steps": steps})
        mw_meta.append((ca, cb, pairs_, n0, qs_))
    for (ca, cb, pairs_, n0, qs_), r in zip(mw_meta, runner.run_many("sql", mw_scripts, timeout=300)):
        rs = r.get("results", [])
        if r.get("abort") or any(U.status(x) != "rows" for x in rs[:n0]):
            chk.machinery(f"mixed-width setup failed for {ca},{cb}: {json.dumps(rs[:n0])[:300]}")
            continue
        for (sql, kind, op, lit_), x in zip(qs_, rs[n0:]):
            c = {"mixed_width": sql, "x": MW[ca][0], "y": MW[cb][0]}
            cid = core.case_id(c)
            if not U.is_rows(x):
                chk.fail(cid, f"evaluation-fails@mixed-width:{MW[ca][0]},{MW[cb][0]}", c, x, outcome="fails")
                continue
            got = U.decode(x)
            if kind == "proj":
                want = [(k, pyop[op](a_, b_)) for k, (a_, b_) in enumerate(pairs_)]
                ok_ = sorted(got) == sorted(want)
            elif kind == "filter":
                ok_ = sorted(g[0] for g in got) == [k for k, (a_, b_) in enumerate(pairs_) if pyop[op](a_, b_)]
            else:
                ok_ = sorted(g[0] for g in got) == [k for k, (a_, b_) in enumerate(pairs_) if pyop[op](a_, lit_)]
            if ok_:
                chk.ok(cid, outcome="ok:mixed-width", sample={"case": c})
            else:
                chk.fail(cid, f"wrong-value@mixed-width:{MW[ca][0]},{MW[cb][0]}", c, {"got": got[:8]}, outcome="wrong")
    # ---- operand type matrix: every binary operator x every ordered pair of operand types (a column of each type, and
    # literals). Whatever the type checker accepts must have a kernel: the statement returns rows or a *data* error
    # (overflow, out of range, unparsable text), never "no function .." and never a panic; and the mirrored comparison
    # (x < y vs y > x, x = y vs y = x) gives the same column.
    ms = matrix_scripts()
    for (op, pairs), r in zip(ms, runner.run_many("sql", [matrix_script(m) for m in ms], timeout=300)):
        if r.get("abort") or any(U.status(x) not in ("rows", "ok") for x in r["results"][:MATRIX_SETUP]):
            chk.machinery(f"type matrix setup failed for {op}: {json.dumps(r)[:300]}")
            continue
        rs = r["results"][MATRIX_SETUP:]
        by_pair = {}
        for (x, y), res in zip(pairs, rs):
            c = {"matrix": f"{x} {op} {y}"}
            cid = core.case_id(c)
            st = U.status(res)
            if st in ("err:bind", "err:parse"):
                chk.skip("type checker rejects")
                continue
            msg = json.dumps(res)
            if st != "rows" and ("no function" in msg or "panicked" in msg or "not supported" in msg or st in ("panic", "abort", "ok_with_task_panic")):
                chk.fail(cid, f"accepted-but-not-evaluable:{op}:{operand_type(x)},{operand_type(y)}", c, res, outcome="no-kernel")
                continue
            by_pair[(x, y)] = res
            mirror = MIRROR.get(op)
            if mirror and (y, x) in MATRIX_DONE.get(mirror, {}):
                other = MATRIX_DONE[mirror][(y, x)]
                if U.is_rows(res) and U.is_rows(other) and res["rows"] != other["rows"]:
                    chk.fail(cid, f"mirrored-comparison-differs:{op}:{operand_type(x)},{operand_type(y)}", c, {"this": res["rows"], f"{y} {mirror} {x}": other["rows"]}, outcome="mirror")
                    continue
            chk.ok(cid, nontrivial=st == "rows", outcome="matrix:" + ("rows" if st == "rows" else "data-error"), sample={"case": c})
        MATRIX_DONE[op] = by_pair
    # (a cast the engine does not have is reported by the cast itself at run time, "no cast X -> Y": the type checker gives
    #  every CAST its target type and leaves the decision to the kernel, so that is a rejection, not a missing kernel)
    um = unary_matrix()
    for (label, qs), r in zip(um, runner.run_many("sql", [matrix_script(m) for m in um], timeout=300)):
        if r.get("abort") or any(U.status(x) not in ("rows", "ok") for x in r["results"][:MATRIX_SETUP]):
            chk.machinery(f"type matrix setup failed for {label}: {json.dumps(r)[:300]}")
            continue
        for (sql, x, form), res in zip(qs, r["results"][MATRIX_SETUP:]):
            c = {"matrix": sql}
            cid = core.case_id(c)
            st = U.status(res)
            if st in ("err:bind", "err:parse"):
                chk.skip("type checker rejects")
                continue
            msg = json.dumps(res)
            if st != "rows" and ("no function" in msg or "panicked" in msg or "not supported" in msg or st in ("panic", "abort", "ok_with_task_panic")):
                chk.fail(cid, f"accepted-but-not-evaluable:{form}:{operand_type(x)}", c, res, outcome="no-kernel")
                continue
            chk.ok(cid, nontrivial=st == "rows", outcome="matrix:" + ("rows" if st == "rows" else "data-error"), sample={"case": c})
    # ---- overflow must be an error
    scripts = []
    for q, data in OVERFLOW:
        for engine in ("mem",):
            scripts.append({"id": 0, "engine": engine, "steps": [{"sql": "create table o(a int, b int)"}, {"sql": U.insert_sql("o", data)}, {"sql": q}]})
    for (q, data), r in zip(OVERFLOW, runner.run_many("sql", scripts, timeout=60)):
        c = {"overflow": q, "data": data}
        x = r["results"][-1] if not r.get("abort") else r
        st = U.status(x)
        if q.startswith(("select a / b", "select a % b")) and data[0][1] == 0:
            okay = U.is_rows(x) and U.decode(x) == [(None,)]
        else:
            okay = st.startswith("err") and "panicked" not in json.dumps(x)
        if okay:
            chk.ok(core.case_id(c), outcome="overflow-reported")
        else:
            chk.fail(core.case_id(c), "overflow-not-an-error", c, x, outcome="overflow")
    # ---- constant folding == run time == reference
    ces = const_exprs()
    steps = [{"sql": "create table c(a int, b int, p boolean, q boolean)"}]
    for (e, ca, cb, x, y, kind) in ces:
        steps.append({"sql": f"select {e}"})
        tmpl = e.replace(x, "__1", 1)
        if " " in tmpl and not e.startswith("not"):
            head, op, tail = e.split(" ", 2)
            rt = f"{ca} {op} {cb}"
        else:
            rt = f"not {ca}"
        steps.append({"sql": "delete from c"})
        steps.append({"sql": f"insert into c({ca}, {cb}) values ({x}, {y})"})
        steps.append({"sql": f"select {rt} from c"})
    r = runner.run_many("sql", [{"id": 0, "engine": "mem", "steps": steps}], timeout=300)[0]
    if r.get("abort"):
        chk.fail(core.case_id({"consts": 1}), "abort", {}, r)
    else:
        rs = r["results"][1:]
        for n, (e, ca, cb, x, y, kind) in enumerate(ces):
            folded, runtime = rs[4 * n], rs[4 * n + 3]
            c = {"const_expr": e}
            cid = core.case_id(c)
            fv = U.decode(folded)[0][0] if U.is_rows(folded) and folded["rows"] else U.status(folded)
            rv = U.decode(runtime)[0][0] if U.is_rows(runtime) and runtime["rows"] else U.status(runtime)
            if isinstance(fv, str) and fv.startswith("err") and isinstance(rv, str) and rv.startswith("err"):
                chk.ok(cid, outcome="both-fail")
            elif (normv(fv, kind) if not isinstance(fv, str) else fv) != (normv(rv, kind) if not isinstance(rv, str) else rv):
                chk.fail(cid, "folded-differs-from-runtime", c, {"folded": fv, "runtime": rv}, outcome="fold")
            else:
                chk.ok(cid, outcome="fold-agrees")
    chk.assumptions += ["integer division truncates toward zero, % takes the sign of the dividend, x/0 and x%0 are NULL (as the property states)",
                        "raw values under NULL slots are only reachable through computed NULLs (e.g. a + b, s || u) at SQL level"]
    return chk


def replay(path):
    d = json.load(open(path))
    c = d["case"]
    if "expr" in c:
        E = [e for e in exprs() if e[0] == c["expr"]]
        s, n0, rows = script(c["L"], c["engine"], E)
        print(json.dumps(runner.run_many("sql", [s])[0]["results"][n0:])[:3000])
    else:
        print(json.dumps(c))
    return 0
