"""Case bookkeeping, known-findings matching, evidence and replay files (shared by all checks)."""
import hashlib, json, os, re, sys, time

VERIF = os.path.dirname(os.path.dirname(os.path.dirname(os.path.abspath(__file__))))
KNOWN_JSON = os.path.join(VERIF, "known_findings.json")
LEVELS = {"exploration", "fault_enumeration", "model_checking"}


def canon(obj):
    return json.dumps(obj, sort_keys=True, separators=(",", ":"), ensure_ascii=True)


def case_id(obj):
    return hashlib.sha1(canon(obj).encode()).hexdigest()[:12]


def slug(s):
    return re.sub(r"[^A-Za-z0-9_.-]+", "_", s)[:80]


class Check:
    def __init__(self, prop, tier, level, rule, seed=0):
        assert level in LEVELS
        self.prop, self.tier, self.level, self.rule, self.seed = prop, tier, level, rule, seed
        self.t0 = time.time()
        self.evaluations = 0
        self.nontrivial = set()
        self.outcomes = {}          # outcome key -> count (vacuity indicator)
        self.failures = []          # (cid, sig, case_obj, detail)
        self.skipped = {}           # reason -> count
        self.samples = []
        self.extra = {}
        self.assumptions = []
        self.exhaustive = True
        self.caps = []
        self.machinery_errors = []

    # ---- recording
    def ok(self, cid, nontrivial=True, outcome=None, sample=None):
        self.evaluations += 1
        if nontrivial:
            self.nontrivial.add(cid)
        if outcome is not None:
            self.outcomes[outcome] = self.outcomes.get(outcome, 0) + 1
        if sample is not None and len(self.samples) < 6:
            self.samples.append(sample)

    def fail(self, cid, sig, case_obj, detail, outcome=None):
        self.evaluations += 1
        self.nontrivial.add(cid)
        self.failures.append((cid, sig, case_obj, detail))
        if outcome is not None:
            self.outcomes[outcome] = self.outcomes.get(outcome, 0) + 1

    def skip(self, reason):
        self.skipped[reason] = self.skipped.get(reason, 0) + 1

    def cap(self, what):
        self.exhaustive = False
        self.caps.append(what)

    def machinery(self, msg):
        self.machinery_errors.append(msg)

    # ---- known findings
    def load_known(self):
        known = {}       # "cid:sig" -> finding id
        titles = {}
        try:
            kj = json.load(open(KNOWN_JSON))
        except FileNotFoundError:
            kj = {"findings": []}
        for f in kj.get("findings", []):
            if f["property"] != self.prop:
                continue
            titles[f["id"]] = f["title"]
            path = os.path.join(VERIF, f["cases_file"])
            if os.path.exists(path):
                import gzip
                opener = (lambda p: gzip.open(p, "rt")) if path.endswith(".gz") else open
                for line in opener(path):
                    line = line.strip()
                    if line and not line.startswith("#"):
                        known[line] = f["id"]
        return known, titles

    def regen_known(self, merge):
        """Developer tool (never called by a registered check): write known/<prop>.<sig>.txt from the
        failures of this run."""
        by_sig = {}
        for cid, sig, _c, _d in self.failures:
            by_sig.setdefault(sig, set()).add(f"{cid}:{sig}")
        os.makedirs(os.path.join(VERIF, "known"), exist_ok=True)
        for sig, keys in sorted(by_sig.items()):
            import gzip
            path = os.path.join(VERIF, "known", f"{self.prop}.{slug(sig)}.txt")
            for old in (path, path + ".gz"):
                if os.path.exists(old):
                    if merge:
                        op = (lambda p: gzip.open(p, "rt")) if old.endswith(".gz") else open
                        keys |= {l.strip() for l in op(old) if l.strip() and not l.startswith("#")}
                    os.remove(old)
            big = len(keys) > 20000
            if big:
                path += ".gz"
            with (gzip.open(path, "wt") if big else open(path, "w")) as f:
                f.write(f"# failing cases of {self.prop} with signature {sig} on the recorded tree (case-id:signature)\n")
                for k in sorted(keys):
                    f.write(k + "\n")
            ex = next(((c, d) for cid, s, c, d in self.failures if s == sig), None)
            print(f"regen: {path}: {len(keys)} cases; e.g. {canon(ex[0])[:300]} -> {str(ex[1])[:300]}")

    # ---- finish
    def finish(self, regen=False, merge=False):
        wall = time.time() - self.t0
        if regen:
            self.regen_known(merge)
        if os.environ.get("RLV_DUMP_FAILS"):
            with open(os.environ["RLV_DUMP_FAILS"], "w") as f:
                for cid, sig, case_obj, detail in self.failures:
                    f.write(json.dumps({"cid": cid, "sig": sig, "case": case_obj, "detail": detail}, default=str) + "\n")
        known, titles = self.load_known()
        kf_hits, violations = {}, []
        for cid, sig, case_obj, detail in self.failures:
            fid = known.get(f"{cid}:{sig}")
            if fid:
                kf_hits[fid] = kf_hits.get(fid, 0) + 1
            else:
                violations.append((cid, sig, case_obj, detail))
        for fid, n in sorted(kf_hits.items()):
            print(f"KNOWN-FINDING: property={self.prop} {fid} {titles[fid]} ({n} enumerated cases)")
        rdir = os.path.join(VERIF, "replays", self.prop)
        paths = []
        if violations:
            os.makedirs(rdir, exist_ok=True)
        sigs = {}
        for cid, sig, case_obj, detail in violations:
            sigs[sig] = sigs.get(sig, 0) + 1
            if sigs[sig] > 25:      # at most 25 replay files per signature
                continue
            path = os.path.join(rdir, f"{cid}.json")
            with open(path, "w") as f:
                json.dump({"property": self.prop, "case_id": cid, "sig": sig, "case": case_obj, "detail": detail}, f, indent=1, default=str)
            paths.append((path, sig, detail))
        for path, sig, detail in paths[:40]:
            print(f"VIOLATION property={self.prop} replay={path}")
            print(f"   [{sig}] {str(detail)[:400]}")
        if len(violations) > len(paths[:40]):
            print(f"   ... {len(violations)} violating cases in total; signatures: {sigs}")
        cov = {
            "evaluations": self.evaluations,
            "distinct_nontrivial": getattr(self, "nontrivial_override", None) or len(self.nontrivial),
            "rule": self.rule,
            "samples": self.samples[:6] or ["(no sample recorded)"],
            "exhaustive": self.exhaustive and not self.caps,
            "caps_hit": self.caps,
            "distinct_outcomes": len(self.outcomes),
            "outcome_histogram": dict(sorted(self.outcomes.items(), key=lambda kv: -kv[1])[:12]),
            "skipped": self.skipped,
            "failing_cases": len(self.failures),
            "known_finding_cases": sum(kf_hits.values()),
            "known_findings_hit": sorted(kf_hits),
        }
        cov.update(self.extra)
        ev = {
            "property_id": self.prop, "tier": self.tier, "seed": self.seed, "level": self.level,
            "coverage": cov, "assumptions": self.assumptions, "wall_s": round(wall, 2),
            "violations": len(violations),
        }
        os.makedirs(os.path.join(VERIF, "evidence"), exist_ok=True)
        with open(os.path.join(VERIF, "evidence", f"{self.prop}.json"), "w") as f:
            json.dump(ev, f, indent=1, default=str)
        print(f"{self.prop} [{self.tier}] evaluations={self.evaluations} nontrivial={cov['distinct_nontrivial']} "
              f"outcomes={len(self.outcomes)} failing={len(self.failures)} known={sum(kf_hits.values())} "
              f"violations={len(violations)} skipped={sum(self.skipped.values())} exhaustive={cov['exhaustive']} wall={wall:.1f}s")
        if self.machinery_errors:
            for m in self.machinery_errors[:10]:
                print(f"MACHINERY-ERROR: {m}")
            return 2
        return 1 if violations else 0
