"""Process pool around the `rlv` harness binary (ping-pong JSON lines; crash-isolating)."""
import json, os, queue, subprocess, threading, time

VERIF = os.path.dirname(os.path.dirname(os.path.dirname(os.path.abspath(__file__))))
RLV = os.environ.get("RLV_BIN") or os.path.join(VERIF, "target", "debug", "rlv")      # RLV_BIN: developer override only
SHIM = os.path.join(VERIF, "target", "getrandom_shim.so")
NCPU = int(os.environ.get("RLV_WORKERS", os.cpu_count() or 8))


class MachineryError(Exception):
    pass


def build():
    """(Re)build the harness against /repo's current working tree. Machinery failure -> exit 2."""
    env = dict(os.environ, CARGO_NET_OFFLINE="true")
    t0 = time.time()
    p = subprocess.run(["cargo", "build", "--offline"], cwd=os.path.join(VERIF, "harness"),
                       env=env, stdout=subprocess.PIPE, stderr=subprocess.STDOUT, text=True)
    if p.returncode != 0:
        print(p.stdout[-4000:])
        raise MachineryError("harness build failed (does /repo still compile with --features verif?)")
    src = os.path.join(VERIF, "harness", "shim", "getrandom_shim.c")
    if not os.path.exists(SHIM) or os.path.getmtime(SHIM) < os.path.getmtime(src):
        for cc in ("cc", "clang", "gcc"):
            q = subprocess.run([cc, "-O2", "-shared", "-fPIC", "-o", SHIM, src], stdout=subprocess.PIPE, stderr=subprocess.STDOUT, text=True)
            if q.returncode == 0:
                break
        else:
            raise MachineryError("could not build the getrandom shim: " + q.stdout[-500:])
    return time.time() - t0


def child_env():
    """Environment of every rlv process: the getrandom shim makes hash-map iteration order a deterministic function
    of the per-script `_seed` (default 0)."""
    env = dict(os.environ)
    if os.path.exists(SHIM):
        env["LD_PRELOAD"] = SHIM
    return env


class _Worker:
    def __init__(self, subcmd, args, timeout):
        self.cmd = [RLV, subcmd] + list(args)
        self.timeout = timeout
        self.p = None

    def start(self):
        self.p = subprocess.Popen(self.cmd, stdin=subprocess.PIPE, stdout=subprocess.PIPE,
                                  stderr=subprocess.DEVNULL, text=True, bufsize=1, env=child_env())

    def call(self, script):
        if self.p is None or self.p.poll() is not None:
            self.start()
        try:
            self.p.stdin.write(json.dumps(script, separators=(",", ":")) + "\n")
            self.p.stdin.flush()
        except (BrokenPipeError, OSError):
            return self._dead()
        line = self._readline()
        if not line:
            return self._dead()
        try:
            return json.loads(line)
        except json.JSONDecodeError:
            return self._dead()

    def _readline(self):
        # watchdog: a hung script kills the process
        res = []
        def rd():
            try:
                res.append(self.p.stdout.readline())
            except Exception:
                res.append("")
        t = threading.Thread(target=rd, daemon=True)
        t.start()
        t.join(self.timeout)
        if t.is_alive():
            self.hung = True
            try:
                self.p.kill()
            except Exception:
                pass
            t.join(5)
            return ""
        return res[0] if res else ""

    def _dead(self):
        rc = None
        try:
            self.p.kill()
            rc = self.p.wait(timeout=5)
        except Exception:
            pass
        hung = getattr(self, "hung", False)
        self.hung = False
        self.p = None
        return {"abort": True, "hung": hung, "rc": rc}

    def close(self):
        if self.p is not None:
            try:
                self.p.stdin.close()
                self.p.wait(timeout=5)
            except Exception:
                try:
                    self.p.kill()
                except Exception:
                    pass
            self.p = None


def run_many(subcmd, scripts, args=(), workers=None, timeout=60, progress=None):
    """Run every script (a JSON-serialisable dict) through `rlv <subcmd>`; returns results in order.
    A script that kills or hangs the process yields {"abort": True, ...}."""
    scripts = list(scripts)
    n = len(scripts)
    out = [None] * n
    q = queue.Queue()
    for i in range(n):
        q.put(i)
    workers = max(1, min(workers or NCPU, n))
    done = [0]
    lock = threading.Lock()

    def work():
        w = _Worker(subcmd, args, timeout)
        while True:
            try:
                i = q.get_nowait()
            except queue.Empty:
                break
            out[i] = w.call(scripts[i])
            with lock:
                done[0] += 1
                if progress and done[0] % progress == 0:
                    print(f"  .. {done[0]}/{n}", flush=True)
        w.close()

    ts = [threading.Thread(target=work) for _ in range(workers)]
    for t in ts:
        t.start()
    for t in ts:
        t.join()
    return out


def run_stream(subcmd, args, on_line, timeout=None):
    """Run `rlv <subcmd> args...` once, calling on_line(dict) for each JSON line it prints.
    Returns the exit code."""
    p = subprocess.Popen([RLV, subcmd] + list(args), stdout=subprocess.PIPE, stderr=subprocess.PIPE, text=True, env=child_env())
    for line in p.stdout:
        line = line.strip()
        if not line:
            continue
        try:
            on_line(json.loads(line))
        except json.JSONDecodeError:
            on_line({"raw": line})
    rc = p.wait()
    err = p.stderr.read()
    return rc, err


def run_shards(subcmd, args, nshards=None, on_line=None):
    """Run `rlv <subcmd> args... --shard i/n` for i in 0..n in parallel; collect all JSON lines.
    Returns (lines, [(rc, stderr_tail)...])."""
    nshards = nshards or NCPU
    lines = []
    rcs = [None] * nshards
    lock = threading.Lock()

    def one(i):
        def cb(d):
            with lock:
                if on_line:
                    on_line(d)
                else:
                    lines.append(d)
        rc, err = run_stream(subcmd, list(args) + ["--shard", f"{i}/{nshards}"], cb)
        rcs[i] = (rc, err[-2000:])

    ts = [threading.Thread(target=one, args=(i,)) for i in range(nshards)]
    for t in ts:
        t.start()
    for t in ts:
        t.join()
    return lines, rcs


if __name__ == "__main__":
    import sys
    if sys.argv[1:] == ["build"]:
        print("built in %.1fs" % build())
