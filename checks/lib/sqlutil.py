"""Helpers shared by the SQL-level checks: result decoding, multisets, SQL ordering, layouts."""
import itertools
from collections import Counter

LAYOUTS_QUICK = [
    {"block": 64, "rowset": 1 << 20},
    {"block": 16384, "rowset": 1 << 20},
]
LAYOUTS_MORE = [
    {"block": 64, "rowset": 1 << 20, "first_key": False},
    {"block": 128, "rowset": 1 << 20, "checksum": "none"},
    {"block": 64, "rowset": 64},          # row-sets never fit the compaction budget: compaction is a no-op
]


def is_rows(r):
    return isinstance(r, dict) and "rows" in r and "task_panics" not in r and not r.get("ragged")


def status(r):
    """Coarse class of a step result."""
    if r is None:
        return "none"
    if r.get("abort"):
        return "abort"
    if "panic" in r:
        return "panic"
    if "open_panic" in r:
        return "open_panic"
    if "err" in r:
        return "err:" + r["err"]
    if "task_panics" in r:
        return "ok_with_task_panic"
    if "rows" in r:
        return "rows"
    if "ok" in r:
        return "ok"
    if "skipped" in r:
        return "skipped"
    return "other"


def decode(r):
    """rows as tuples of python values using the column types (ints -> int, bool -> bool, else str/None)."""
    cols = r["cols"]
    out = []
    for row in r["rows"]:
        t = []
        for ty, v in zip(cols, row):
            if v is None:
                t.append(None)
            elif ty in ("Int16", "Int32", "Int64"):
                t.append(int(v))
            elif ty == "Bool":
                t.append(v == "true")
            else:
                t.append(v)
        out.append(tuple(t))
    return out


def mset(rows):
    return Counter(rows)


def key_nullfirst(v):
    """Total order used by risinglight and SQLite: NULL smallest."""
    return (0,) if v is None else (1, v)


def sort_rows(rows, keys):
    """keys = [(col_index, desc)], NULL smallest (so last under desc). Stable."""
    rows = list(rows)
    for ci, desc in reversed(keys):
        rows.sort(key=lambda r: key_nullfirst(r[ci]), reverse=desc)
    return rows


def is_sorted(rows, keys):
    def k(r):
        return [(key_nullfirst(r[ci]), desc) for ci, desc in keys]
    for a, b in zip(rows, rows[1:]):
        for (ka, desc), (kb, _) in zip(k(a), k(b)):
            if ka == kb:
                continue
            if (ka < kb) != (not desc):
                return False
            break
    return True


def sql_lit(v):
    if v is None:
        return "NULL"
    if isinstance(v, bool):
        return "true" if v else "false"
    if isinstance(v, (int, float)):
        return str(v)
    return "'" + str(v).replace("'", "''") + "'"


def insert_sql(table, rows):
    return f"insert into {table} values " + ",".join("(" + ",".join(sql_lit(v) for v in r) + ")" for r in rows)


def seqs(alphabet, maxlen, minlen=0):
    for n in range(minlen, maxlen + 1):
        yield from itertools.product(alphabet, repeat=n)


def srt(rows):
    """rows sorted with NULL smallest (plain sorted() cannot compare None)"""
    return sorted(rows, key=lambda r: tuple(key_nullfirst(v) for v in r))
