"""Deterministic small-scope query and database generator shared by C01, C02, C16, C17.

Everything is enumerated in a fixed simplest-first order; nothing is random. A query is a dict
  {"sql", "okeys": [(output col index, desc)] | None, "det": bool (result fully determined as a multiset / key sequence),
   "sqlite": bool (both dialects define the same answer), "feat": [tags], "level": 1|2|3}
level 1 = single table, 2 = two tables / subqueries / derived tables, 3 = three tables and nested forms.
"""
import itertools

# ---------------------------------------------------------------- schemas and databases

SCHEMAS = {
    # plain: no keys, everything nullable
    "plain": ["create table t1(a int, b int)", "create table t2(a int, c int)", "create table t3(a int, d varchar)"],
    # keyed: primary key on t1.a, BIGINT join key on t2 (different integer widths)
    "keyed": ["create table t1(a int primary key, b int)", "create table t2(a bigint, c int)", "create table t3(a int, d varchar)"],
    # pkpk: both join sides are stored in key order on disk (merge join / sort aggregation become eligible)
    "pkpk": ["create table t1(a int primary key, b int)", "create table t2(a int primary key, c int)", "create table t3(a int, d varchar)"],
}

T1 = {
    "e": [],
    "one": [(1, 1)],
    "nul": [(None, None), (1, None)],
    "mix": [(1, 1), (2, None), (None, 3), (2, 2)],
    "dup": [(1, 1), (1, 1), (2, 0), (3, 2)],
}
T1_KEYED = {          # t1.a is a primary key: non-null
    "e": [],
    "one": [(1, 1)],
    "nul": [(1, None), (2, None)],
    "mix": [(1, 1), (2, None), (3, 3), (0, 2)],
    "dup": [(1, 1), (2, 1), (3, 0), (4, 2)],
}
T2 = {
    "e": [],
    "one": [(1, 2)],
    "nul": [(None, 1), (None, None)],
    "mix": [(1, 1), (2, None), (None, 3), (1, 2), (3, 0)],
}
T2_KEYED = {
    "e": [],
    "low": [(0, 1), (1, None), (2, 3)],            # right side ends before the left side
    "high": [(2, 2), (5, None), (7, 0), (9, 1)],   # right side outlives the left side
    "mix": [(1, 1), (3, None), (4, 3), (6, 2)],
}
T3 = [(1, "x"), (2, None), (None, "y"), (2, "x")]


def databases(tier):
    """[(name, schema, {table: rows}, inserts_split)]; inserts_split = number of INSERT statements per table
    (several statements = several row-sets on disk / several chunks in memory)."""
    out = []
    for schema in SCHEMAS:
        t1s = T1 if schema == "plain" else T1_KEYED
        t2s = T2_KEYED if schema == "pkpk" else T2
        for n1, r1 in t1s.items():
            for n2, r2 in t2s.items():
                if tier == "quick" and schema == "keyed" and not (n1 in ("mix", "dup") and n2 in ("mix", "nul", "e")):
                    continue
                if tier == "quick" and schema == "pkpk" and n1 not in ("mix", "dup", "e"):
                    continue
                out.append((f"{schema}:{n1}:{n2}", schema, {"t1": r1, "t2": r2, "t3": T3}))
    return out


def lit(v):
    if v is None:
        return "null"
    if isinstance(v, str):
        return "'" + v.replace("'", "''") + "'"
    return str(v)


# a table with every numeric column type (the other tables only have INT columns), NULLs, several chunks / row-sets
NUM_TABLE = "create table n(g int, si smallint, bi bigint, d double)"
NUM_ROWS = ["insert into n values (1, 1, 10000000000, 1.5), (1, 2, 20000000000, 2.5), (2, 3, 1, 0.5)",
            "insert into n values (2, null, null, null), (1, -5, -7, -1.5), (3, null, null, null)",
            "insert into n values (2, 7, 9, 4.0), (4, 1, 1, 1.0)"]


def typed_queries():
    qs = []
    for col in ("si", "bi", "d", "g"):
        for agg in ("sum", "min", "max", "count"):
            qs.append((f"select {agg}({col}) from n", "typed-agg"))
            qs.append((f"select g, {agg}({col}) from n group by g", "typed-agg"))
            qs.append((f"select g, {agg}({col}) from n where g < 3 group by g", "typed-agg"))
            qs.append((f"select {agg}({col}) from n where g > 100", "typed-agg"))
            qs.append((f"select g, {col}, {agg}({col}) over (partition by g) from n", "window"))
        qs.append((f"select count(distinct {col}) from n", "typed-agg"))
        qs.append((f"select g, sum({col}), count({col}), min({col}), max({col}) from n group by g", "typed-agg"))
        qs.append((f"select sum({col} + 1), sum({col} * 2) from n", "typed-agg"))
        qs.append((f"select {col} from n where {col} > 1 order by {col}", "typed-agg"))
        qs.append((f"select n.g, t1.a from n join t1 on n.{col} = t1.a", "typed-join"))
    qs.append(("select sum(si), sum(bi), sum(d) from n", "typed-agg"))
    qs.append(("select g, sum(si + bi), max(d + si) from n group by g", "typed-agg"))
    qs.append(("select x.g, y.g from n x join n y on x.si = y.bi", "typed-join"))
    qs.append(("select x.g, y.g from n x left join n y on x.d = y.si", "typed-join"))
    for col in ("si", "bi", "d", "g"):
        # arithmetic with an INT literal that a rewrite may drop: the INT result type must be kept for every column type
        qs.append((f"select {col} + 0, {col} * 1, {col} - 0, 0 - {col}, {col} * -1, {col} + {col} from n", "typed-arith"))
        qs.append((f"select g, sum({col} + 0), max({col} * 1), min(0 - {col}) from n group by g", "typed-arith"))
    # explicit and implicit conversions between the numeric types (the array that is produced must have the static type)
    qs.append(("select cast(si as bigint), cast(si as int), cast(g as bigint), cast(g as smallint), cast(bi as double), cast(si as double), cast(g as double) from n", "typed-cast"))
    qs.append(("select si + bi, si + g, g + bi, si + d, bi + d, g * d from n", "typed-cast"))
    qs.append(("select g, max(cast(si as bigint)), sum(cast(g as smallint)) from n group by g", "typed-cast"))
    qs.append(("select sum(a) over (), a from t1", "window"))
    qs.append(("select a, b, sum(b) over (), count(*) over () from t1", "window"))
    return qs


def setup_sql(schema, tables, split):
    """CREATE + INSERT statements; with split=True every row gets its own INSERT (several row-sets)."""
    stmts = list(SCHEMAS[schema]) + [NUM_TABLE] + NUM_ROWS
    for t, rows in tables.items():
        if not rows:
            continue
        groups = [[r] for r in rows] if split else [rows]
        if split and len(rows) > 2:
            groups = [rows[:2], rows[2:]]
        for g in groups:
            stmts.append(f"insert into {t} values " + ", ".join("(" + ", ".join(lit(v) for v in r) + ")" for r in g))
    return stmts


# ---------------------------------------------------------------- queries

def q(sql, okeys=None, det=True, sqlite=True, feat=(), level=1, seq=None):
    """seq = name of the table whose (unselected) key orders the output: the whole row sequence is compared on databases
    where that key is unique (see seq_applies), the multiset elsewhere."""
    return {"sql": sql, "okeys": okeys, "det": det, "sqlite": sqlite, "feat": list(feat), "level": level, "seq": seq}


def determined(x, dbname):
    """is the result (as a multiset / key sequence) determined on this database? LIMIT under an ORDER BY on an unselected key
    is only where that key is unique"""
    return x["det"] and not (x.get("seq") and "limit" in x["feat"] and not seq_applies(x, dbname))


def seq_applies(x, dbname):
    schema = dbname.split(":")[0]
    return (x.get("seq") == "t1" and schema in ("keyed", "pkpk")) or (x.get("seq") == "t2" and schema == "pkpk")


PROJ1 = [                         # (select list, number of columns, tag)
    ("*", 2, "star"), ("a", 1, "col"), ("b, a", 2, "cols"), ("a + b", 1, "arith"), ("b + 1, a", 2, "arith"),
    ("case when b > 1 then a else b end", 1, "case"), ("b is null, a", 2, "isnull"), ("a * 0", 1, "mulzero"),
    ("a - a", 1, "subself"), ("a = a", 1, "eqself"), ("a > 1 and b > 1", 1, "boolexpr"), ("a > 1 or b is null", 1, "boolexpr"),
    ("not (a > 1)", 1, "boolexpr"),
]
WHERE1 = [
    None, "a = 1", "b > 1", "a < b", "b is null", "b is not null", "a in (1, 2)", "a between 1 and 2", "not (b > 1)",
    "a = 1 or b = 1", "a > 0 and b > 0", "a >= 1 and a < 3", "a > 1 and a < 1", "a = b", "a <> b", "1 = 1", "a = 1 and a = 2",
    "b > 1 and b > 0", "a >= 2 and a > 2", "not (a = 1 or b = 1)", "a + 0 > 1", "(a > 1) = (b > 1)", "a is null or b is null",
    "a > 2 or a < 2", "b = 1 and a = b",
    # a key range next to a range on the other column, bounded on the opposite side (ranges of different columns must stay apart)
    "a > 1 and b < 2", "b < 2 and a > 1", "a < 3 and b > 1", "a >= 2 and b <= 1", "a > 0 and b < 3 and b > 0",
]
AGGS = [
    "count(*)", "count(b)", "sum(b)", "min(b), max(b)", "count(distinct b)", "count(*), sum(b), min(a)",
    "count(distinct b), sum(b)", "max(a), count(b)", "sum(a + b)", "count(distinct a), count(distinct b)",
]
HAVING = [None, "count(*) > 1", "sum(b) > 1", "min(b) is null", "count(b) = 0"]
JOIN_TYPES = ["join", "left join", "right join", "full join"]
JOIN_ON = [
    "t1.a = t2.a", "t1.a = t2.a and t1.b > 1", "t1.a = t2.a and t2.c > 1", "t1.a = t2.a and t1.b = t2.c", "t1.a < t2.a",
    "t1.a = t2.a or t1.b = t2.c", "t1.b = t2.c", "t1.a = t2.a and t1.b is null", "t2.a = t1.a and 1 = 1", "t1.a + 1 = t2.a",
]
JOIN_WHERE = [None, "t1.b > 1", "t2.c is null", "t1.b = t2.c", "t2.c > 1 or t1.b > 1", "t1.a is not null", "t2.a = 1", "t1.a = 1 and t2.c > 0"]
SUBQ = [
    ("a in (select a from t2)", True), ("a in (select a from t2 where c > 1)", True), ("a not in (select a from t2)", True),
    ("a not in (select a from t2 where a is not null)", True),
    ("exists (select * from t2 where t2.a = t1.a)", True), ("not exists (select * from t2 where t2.a = t1.a)", True),
    ("exists (select * from t2 where t2.a = t1.a and t2.c > t1.b)", True), ("exists (select * from t2 where t2.c > 5)", True),
    ("b > (select min(c) from t2)", True), ("b = (select max(c) from t2 where t2.a = t1.a)", True),
    ("a in (select a from t2) and b > 1", True), ("a in (select a from t2) or b > 1", True),
    ("b in (select c from t2 where t2.a = t1.a)", True), ("a in (select t2.a from t2 join t3 on t2.a = t3.a)", True),
    # subqueries whose select item is computed, aggregated or de-duplicated (not a bare column)
    ("a in (select a + 1 from t2)", True), ("b in (select c * 2 from t2 where c > 0)", True), ("a not in (select c - 1 from t2 where c is not null)", True),
    ("a in (select max(a) from t2)", True), ("a in (select distinct c from t2)", True), ("a + 1 in (select a from t2)", True),
    ("a in (select a from t2 group by a having count(*) > 1)", True), ("exists (select c + 1 from t2 where t2.a + 1 = t1.a)", True),
    ("not exists (select 1 from t2 where t2.a = t1.a and t2.c is null)", True), ("a in (select a from t2 order by a limit 2)", True),
]


def all_cols_order(n):
    return ", ".join(str(i + 1) for i in range(n))


def queries(tier):
    """The whole corpus, simplest first."""
    out = []
    thorough = tier == "thorough"
    # ---- level 1: single table: projection x where
    for (p, n, tag) in PROJ1:
        for w in WHERE1:
            if not thorough and tag not in ("star", "cols", "arith", "case") and w not in (None, "b > 1", "a = 1 or b = 1", "b is null"):
                continue
            sql = f"select {p} from t1" + (f" where {w}" if w else "")
            out.append(q(sql, feat=["proj:" + tag] + (["where"] if w else [])))
    # distinct
    for p, n in [("a", 1), ("b", 1), ("a, b", 2), ("b is null", 1), ("a + b", 1)]:
        for w in [None, "b > 0", "a is not null"]:
            out.append(q(f"select distinct {p} from t1" + (f" where {w}" if w else ""), feat=["distinct"]))
    # order by / limit / offset (deterministic forms: ORDER BY covers all output columns when LIMIT/OFFSET is present)
    for (p, n, keys, okeys) in [
        ("a, b", 2, "a, b", [(0, False), (1, False)]), ("a, b", 2, "a desc, b", [(0, True), (1, False)]),
        ("b, a", 2, "b desc, a desc", [(0, True), (1, True)]), ("a", 1, "a", [(0, False)]), ("a + b, a, b", 3, "a + b, a, b", [(0, False), (1, False), (2, False)]),
    ]:
        for w in [None, "b > 0", "a > 1"]:
            for lim in [None, "limit 0", "limit 1", "limit 2", "limit 5", "offset 1", "limit 1 offset 1", "limit 2 offset 3", "limit 0 offset 1"]:
                sql = f"select {p} from t1" + (f" where {w}" if w else "") + f" order by {keys}" + (f" {lim}" if lim else "")
                out.append(q(sql, okeys=okeys, feat=["order"] + (["limit"] if lim else [])))
    # order by a key that is not selected (unique in the keyed schemas: the whole output sequence is determined there;
    # on disk the optimizer drops the ORDER BY and the scan has to merge the row-sets by a key it is not asked to return)
    for tail in ["", " desc", " limit 2", " limit 2 offset 1", " desc limit 3"]:
        out.append(q(f"select b from t1 order by a{tail}", seq="t1", feat=["order-unselected"] + (["limit"] if "limit" in tail else [])))
    out.append(q("select b from t1 where b > 0 order by a", seq="t1", feat=["order-unselected"]))
    out.append(q("select b + 1, b from t1 order by a", seq="t1", feat=["order-unselected"]))
    # window functions below an ORDER BY (no SQLite comparison: the window operator ignores PARTITION BY / ORDER BY)
    out.append(q("select a, b, sum(b) over () from t1 order by b, a", okeys=[(1, False), (0, False)], sqlite=False, feat=["window-order"]))
    out.append(q("select a, row_number() over () from t1 order by a desc", okeys=[(0, True)], sqlite=False, feat=["window-order"]))
    out.append(q("select b, count(a) over () from t1 where b > 0 order by b limit 3", okeys=[(0, False)], det=False, sqlite=False, feat=["window-order"]))
    # LIMIT/OFFSET without ORDER BY: which rows come back is not determined, how many is (several chunks / row-sets on disk)
    for lim in ["limit 2 offset 2", "limit 1 offset 3", "limit 5 offset 2", "offset 2", "limit 1 offset 1", "limit 3"]:
        out.append(q(f"select count(*) from (select a from t1 {lim}) s", feat=["limit-count", "derived"], level=2))
    # order by a non-total key without limit: sequence compared on the key only
    out.append(q("select a, b from t1 order by b", okeys=[(1, False)], feat=["order"]))
    out.append(q("select a, b from t1 order by b desc", okeys=[(1, True)], feat=["order"]))
    out.append(q("select b from t1 where a > 0 order by a + b", okeys=None, det=False, feat=["order-expr"]))
    # aggregation
    for ag in AGGS:
        for w in [None, "b > 1", "a is null", "a > 100"]:
            out.append(q(f"select {ag} from t1" + (f" where {w}" if w else ""), feat=["agg"]))
        for h in HAVING:
            for w in [None, "b > 0"]:
                if not thorough and h is not None and w is not None:
                    continue
                sql = f"select a, {ag} from t1" + (f" where {w}" if w else "") + " group by a" + (f" having {h}" if h else "")
                out.append(q(sql, feat=["groupby"] + (["having"] if h else [])))
    out.append(q("select b, count(*) from t1 group by b order by b", okeys=[(0, False)], feat=["groupby", "order"]))
    out.append(q("select a + 1, sum(b) from t1 group by a + 1", feat=["groupby-expr"]))
    out.append(q("select a, b, count(*) from t1 group by a, b", feat=["groupby"]))
    out.append(q("select count(*) from t1 group by a", feat=["groupby"]))
    out.append(q("select d, count(*), min(a) from t3 group by d", feat=["groupby", "string"]))
    out.append(q("select a, d from t3 where d = 'x'", feat=["string"]))
    out.append(q("select a, d from t3 where d > 'w' or d is null", feat=["string"]))
    out.append(q("select distinct d from t3", feat=["string", "distinct"]))
    out.append(q("select a, d from t3 order by d, a", okeys=[(1, False), (0, False)], feat=["string", "order"]))
    out.append(q("select max(d), min(d), count(d) from t3", feat=["string", "agg"]))
    # string-valued expressions (CASE with string / boolean branches, concatenation, LIKE, IN lists of strings)
    out.append(q("select a, case when d = 'x' then 'is-x' else d end from t3", feat=["string-expr"]))
    out.append(q("select a, case when a > 1 then 'big' else 'small' end from t3", feat=["string-expr"]))
    out.append(q("select a, case when a > 1 then d end from t3", feat=["string-expr"]))
    out.append(q("select a, case when d is null then a > 1 else d = 'x' end from t3", feat=["string-expr"]))
    out.append(q("select a, d || '!' , d || d from t3", feat=["string-expr"]))
    out.append(q("select a from t3 where d like 'x%' or d like '_'", feat=["string-expr"]))
    # patterns that match the empty string (the raw value under a NULL string), alone and under AND / OR / as a join condition
    out.append(q("select a from t3 where d like '%'", feat=["string-expr"]))
    out.append(q("select a, d like '%' or a > 5, d like '' from t3", feat=["string-expr"]))
    out.append(q("select count(*) from t3 where d like '%' and a > 0", feat=["string-expr"]))
    out.append(q("select t1.a, t3.a from t1 left join t3 on t3.d like '%' and t1.a = t3.a", feat=["string-expr", "join:left"], level=2))
    out.append(q("select a, d from t3 where d in ('x', 'z')", feat=["string-expr"]))
    out.append(q("select a, d from t3 where d not in ('x', 'z')", feat=["string-expr"]))
    out.append(q("select case when d = 'x' then 'is-x' else 'other' end, count(*) from t3 group by case when d = 'x' then 'is-x' else 'other' end", feat=["string-expr", "groupby-expr"]))
    out.append(q("select a, d from t3 where a = '2'", sqlite=False, feat=["string-expr"]))
    # CASE with several WHEN branches that can be true at once (the first one wins), searched and simple form
    out.append(q("select a, case when a > 1 then 'big' when a > 0 then 'pos' else 'rest' end from t3", feat=["case-multi"]))
    out.append(q("select a, b, case when b > 1 then 2 when b > 0 then 1 when b is null then -1 else 0 end from t1", feat=["case-multi"]))
    out.append(q("select a, case a when 1 then 'x' when 1 then 'y' when 2 then 'z' end from t1", feat=["case-multi"]))
    out.append(q("select sum(case when b > 1 then 2 when b > 0 then 1 else 0 end), count(case when a > 0 then 1 when a > 1 then 2 end) from t1", feat=["case-multi", "agg"]))
    out.append(q("select a, b from t1 where case when a > 1 then b > 0 when a > 0 then b is null else false end", feat=["case-multi"]))
    out.append(q("select case when a > 1 then 'big' when a > 0 then 'pos' else 'rest' end, count(*) from t1 group by case when a > 1 then 'big' when a > 0 then 'pos' else 'rest' end", feat=["case-multi", "groupby-expr"]))
    # ---- level 2: joins
    for jt in JOIN_TYPES:
        for on in JOIN_ON:
            for w in JOIN_WHERE:
                if not thorough and w is not None and on not in ("t1.a = t2.a", "t1.a = t2.a and t1.b > 1", "t1.a < t2.a"):
                    continue
                sql = f"select t1.a, t1.b, t2.a, t2.c from t1 {jt} t2 on {on}" + (f" where {w}" if w else "")
                out.append(q(sql, feat=["join:" + jt.split()[0]] + (["where"] if w else []), level=2))
    out.append(q("select t1.a, t2.c from t1 cross join t2", feat=["join:cross"], level=2))
    out.append(q("select t1.a, t2.c from t1, t2 where t1.a = t2.a", feat=["join:comma"], level=2))
    out.append(q("select t1.a, t2.c from t1, t2 where t1.a = t2.a and t1.b > t2.c", feat=["join:comma"], level=2))
    for jt in JOIN_TYPES:
        out.append(q(f"select t1.a, count(*), sum(t2.c) from t1 {jt} t2 on t1.a = t2.a group by t1.a", feat=["join:" + jt.split()[0], "groupby"], level=2))
        out.append(q(f"select count(*), count(t2.a), count(t1.a) from t1 {jt} t2 on t1.a = t2.a", feat=["join:" + jt.split()[0], "agg"], level=2))
        out.append(q(f"select t1.a, t2.c from t1 {jt} t2 on t1.a = t2.a order by t1.a, t2.c", okeys=[(0, False), (1, False)], feat=["join:" + jt.split()[0], "order"], level=2))
        out.append(q(f"select t1.a, t2.c from t1 {jt} t2 on t1.a = t2.a order by t1.a, t2.c limit 2", okeys=[(0, False), (1, False)], feat=["join:" + jt.split()[0], "order", "limit"], level=2))
        out.append(q(f"select distinct t1.a from t1 {jt} t2 on t1.a = t2.a", feat=["join:" + jt.split()[0], "distinct"], level=2))
        out.append(q(f"select x.a, t2.c from t1 x {jt} t2 on x.a = t2.a where x.a = 1", feat=["join:" + jt.split()[0], "alias"], level=2))
    # ORDER BY the key of the RIGHT input of a join (t1 has a primary key in the keyed / pkpk schemas): the sort may only be
    # dropped if the join that is finally chosen really keeps the right input's order
    for jt in JOIN_TYPES:
        out.append(q(f"select t2.a, t2.c, t1.a from t2 {jt} t1 on t2.a = t1.a order by t1.a", okeys=[(2, False)], feat=["join-order-right:" + jt.split()[0]], level=2))
        out.append(q(f"select t2.c, t1.a, t1.b from t2 {jt} t1 on t2.c = t1.a order by t1.a, t2.c", okeys=[(1, False), (0, False)], feat=["join-order-right:" + jt.split()[0]], level=2))
        out.append(q(f"select t1.a, count(*) from t2 {jt} t1 on t2.a = t1.a group by t1.a", feat=["join-order-right:" + jt.split()[0], "groupby"], level=2))
    # joins of ordered inputs (merge join becomes eligible on every engine)
    for jt in JOIN_TYPES:
        out.append(q(f"select x.a, x.b, y.a, y.c from (select a, b from t1 order by a) x {jt} (select a, c from t2 order by a) y on x.a = y.a",
                     feat=["join-ordered:" + jt.split()[0]], level=2))
        out.append(q(f"select x.a, y.c from (select a, b from t1 where b > 0 order by a) x {jt} (select a, c from t2 order by a) y on x.a = y.a where y.c is null or x.a > 1",
                     feat=["join-ordered:" + jt.split()[0]], level=2))
    out.append(q("select a, count(*), sum(b) from (select a, b from t1 order by a) s group by a", feat=["sortagg"], level=2))
    out.append(q("select a, b, count(*) from (select a, b from t1 order by a, b) s group by a, b", feat=["sortagg"], level=2))
    # self join
    out.append(q("select x.a, y.b from t1 x join t1 y on x.a = y.b", feat=["selfjoin"], level=2))
    out.append(q("select x.a, y.a from t1 x left join t1 y on x.b = y.a and y.b > 0", feat=["selfjoin"], level=2))
    # subqueries
    for (cond, ok) in SUBQ:
        out.append(q(f"select a, b from t1 where {cond}", sqlite=ok, feat=["subquery"], level=2))
    out.append(q("select a, (select count(*) from t2 where t2.a = t1.a) from t1", feat=["subquery", "scalar-correlated"], level=2))
    out.append(q("select a, (select max(c) from t2) from t1", feat=["subquery", "scalar"], level=2))
    out.append(q("select a from t1 where b > (select count(*) from t2 where t2.a = t1.a)", feat=["subquery", "scalar-correlated"], level=2))
    # every numeric column type: aggregates, GROUP BY, windows, joins on keys of different numeric types
    for (sql, feat) in typed_queries():
        out.append(q(sql, feat=[feat], level=2))
    # derived tables
    out.append(q("select * from (select a, b from t1 order by a, b limit 2) s where a > 0", feat=["derived", "limit"], level=2))
    out.append(q("select * from (select a, b from t1 order by a, b limit 2 offset 1) s where b > 1", feat=["derived", "limit"], level=2))
    out.append(q("select s.a from (select a, count(*) as n from t1 group by a) s where s.n > 1", feat=["derived", "groupby"], level=2))
    out.append(q("select s.a, t2.c from (select a from t1 where b > 0) s join t2 on s.a = t2.a", feat=["derived", "join:join"], level=2))
    out.append(q("select s.a, t2.c from (select a from t1 where b > 0) s left join t2 on s.a = t2.a", feat=["derived", "join:left"], level=2))
    out.append(q("select s.a, s.m from (select a, max(b) as m from t1 group by a) s order by s.a, s.m", okeys=[(0, False), (1, False)], feat=["derived", "order"], level=2))
    out.append(q("select * from (select distinct a from t1) s where a > 1", feat=["derived", "distinct"], level=2))
    # an ordered derived table re-sorted / grouped by a key that is not a prefix of its order (the inner order must not be
    # taken for the outer one)
    out.append(q("select * from (select a, b from t1 order by a, b) s order by b", okeys=[(1, False)], feat=["derived", "order"], level=2))
    out.append(q("select * from (select a, b from t1 order by a, b) s order by b desc, a", okeys=[(1, True), (0, False)], feat=["derived", "order"], level=2))
    out.append(q("select * from (select a, b from t1 order by b, a limit 3) s order by a", okeys=[(0, False)], det=False, feat=["derived", "order", "limit"], level=2))
    out.append(q("select b, count(*) from (select a, b from t1 order by a, b) s group by b", feat=["derived", "groupby"], level=2))
    out.append(q("select b, a from (select a, b from t1 order by a, b) s order by b, a limit 2", okeys=[(0, False), (1, False)], feat=["derived", "order", "limit"], level=2))
    out.append(q("select count(*) from (select a from t1 order by a limit 3) s", feat=["derived", "limit"], level=2))
    out.append(q("select * from (select a, b from t1 order by a, b limit 3) s order by a desc, b desc limit 1", okeys=[(0, True), (1, True)], feat=["derived", "limit"], level=2))
    # ---- level 3: three tables
    for j1, j2 in itertools.product(JOIN_TYPES, JOIN_TYPES):
        if not thorough and (j1, j2) not in (("join", "join"), ("left join", "join"), ("join", "left join"), ("left join", "left join")):
            continue
        out.append(q(f"select t1.a, t2.c, t3.d from t1 {j1} t2 on t1.a = t2.a {j2} t3 on t2.a = t3.a", feat=["join3"], level=3))
        out.append(q(f"select t1.a, t2.c, t3.d from t1 {j1} t2 on t1.a = t2.a {j2} t3 on t1.a = t3.a where t1.b > 0", feat=["join3"], level=3))
    out.append(q("select t1.a, t3.d from t1, t2, t3 where t1.a = t2.a and t2.a = t3.a and t1.b > 0", feat=["join3"], level=3))
    out.append(q("select t1.a, count(*) from t1 join t2 on t1.a = t2.a join t3 on t2.a = t3.a group by t1.a", feat=["join3", "groupby"], level=3))
    out.append(q("select a from t1 where a in (select a from t2 where c in (select a from t3))", feat=["subquery", "nested"], level=3))
    out.append(q("select a from t1 where exists (select * from t2 where t2.a = t1.a and exists (select * from t3 where t3.a = t2.a))", feat=["subquery", "nested"], level=3))
    # de-duplicate, keep first occurrence
    seen, res = set(), []
    for x in out:
        if x["sql"] not in seen:
            seen.add(x["sql"])
            res.append(x)
    return res


if __name__ == "__main__":
    import sys
    qs = queries(sys.argv[1] if len(sys.argv) > 1 else "quick")
    print(len(qs), "queries;", len(databases("quick")), "quick dbs;", len(databases("thorough")), "thorough dbs")
    for x in qs[:5] + qs[-5:]:
        print(x["sql"])
