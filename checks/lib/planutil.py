"""Shared driver for the plan-level engine (`rlv plan`): corpus x databases x engines x statistics."""
from . import qgen, runner

EXTRA = [
    # correlated subqueries in WHERE / SELECT / HAVING
    "select a, (select count(*) from t2 where t2.a = t1.a) from t1",
    "select a from t1 where b > (select max(c) from t2 where t2.a = t1.a)",
    "select a, count(*) from t1 group by a having count(*) > (select count(*) from t2 where t2.a = t1.a)",
    "select a from t1 where exists (select 1 from t2 where t2.a = t1.a and t2.c > t1.b)",
    "select a from t1 where a in (select a from t2 where t2.c = t1.b)",
    "select (select max(c) from t2), a from t1",
    "select a from t1 where b = (select min(c) from t2) or a = 1",
    "select a from t1 where not exists (select * from t2 where t2.a = t1.a) and b > 0",
    "select a from t1 where a not in (select a from t2 where a is not null)",
    # equalities mixing both sides of a (semi/anti/inner/outer) join condition
    "select a from t1 where not exists (select * from t2 where t2.a = t1.a and t1.b = t1.a * t2.c)",
    "select a from t1 where exists (select * from t2 where t2.a = t1.a and t1.b = t1.a * t2.c)",
    "select a from t1 where not exists (select * from t2 where t2.a = t1.a and t1.b + t2.c = t2.a)",
    "select a from t1 where a in (select a from t2 where t1.b * t2.c = t1.a)",
    "select t1.a from t1 join t2 on t1.a = t2.a and t1.b = t1.a * t2.c",
    "select t1.a from t1 left join t2 on t1.a = t2.a and t1.b * t2.c = t2.a",
    "select t1.a from t1 join t2 on t1.a * t2.a = t1.b and t2.c = t1.a join t3 on t3.a = t1.a * t2.a",
    # window functions
    "select a, row_number() over (order by a) from t1",
    "select a, sum(b) over (partition by a) from t1",
    "select a, sum(b) over (partition by a order by b) from t1",
    "select a, count(*) over () from t1",
    # CTEs and views
    "with x as (select a, b from t1 where b > 0) select * from x",
    "with x as (select a from t1), y as (select a from t2) select x.a from x join y on x.a = y.a",
    "select * from v1",
    "select v1.x, t2.c from v1 join t2 on v1.x = t2.a",
    "select x from v1 where x > 1 order by x limit 1",
    # DISTINCT ON, non-constant LIMIT, misc
    "select distinct on (a) a, b from t1 order by a, b",
    "select distinct on (a) a, b from t1 order by a",
    "select distinct on (a) b from t1 order by a",
    "select distinct on (a) b + 1, a from t1 order by a desc",
    "select distinct on (a + 1) a + 1, b from t1 order by a + 1",
    "select distinct on (a, b) b from t1 order by b, a",
    "select distinct a, b from t1 order by b desc, a",
    "select distinct a + b from t1 order by a + b",
    # a computed column of a derived cross join used in the outer join condition
    "select s.x, t3.d from (select t1.a + t2.c as x from t1, t2) s, t3 where s.x = t3.a",
    "select s.x, t3.d from (select t1.a + t2.c as x from t1 join t2 on t1.a = t2.a) s join t3 on s.x = t3.a",
    "select s.x from (select t1.a + t2.c as x, t1.b as y from t1, t2) s, t3 where s.x = t3.a and s.y > 0",
    # scalar subqueries over an empty / constant-false input, and as a sort key
    "select a, (select max(c) from t2 where false) from t1",
    "select a from t1 order by (select max(c) from t2)",
    "select a from t1 where b > (select max(c) from t2 where 1 = 0)",
    # correlated scalar subqueries with their own GROUP BY, selecting the grouping key
    "select a from t1 where b > (select t2.a + max(t2.c) from t2 where t2.a = t1.a group by t2.a)",
    "select a, b from t1 where b >= (select max(t2.c) from t2 where t2.a = t1.a group by t2.a)",
    "select a from t1 where b > (select t2.a from t2 where t2.a = t1.a group by t2.a having count(*) > 0)",
    # ... and grouping by an expression of the correlated table (the select item is the grouping expression itself)
    "select a from t1 where b > (select t2.a + 1 from t2 where t2.a = t1.a group by t2.a + 1)",
    "select a, (select t2.a * 2 from t2 where t2.a = t1.a group by t2.a * 2) from t1",
    "select a from t1 where b > (select max(t2.c) + (t2.a + 1) from t2 where t2.a = t1.a group by t2.a + 1)",
    "select a from t1 limit (select count(*) from t2)",
    "select a from t1 order by a limit 1 + 1",
    "select a from t1 offset 1",
    "select a from t1 order by b offset 1",
    "select count(*) from t1 where a in (1, 2, null)",
    "select a from t1 where a in (1, null)",
    "select a, b from t1 where a = 1 and a = 1",
    "select t1.a from t1 join t2 on true",
    "select t1.a from t1 join t2 on t1.a = t2.a join t3 on true where t3.d = 'x'",
    "select t1.a from t1 left join t2 on false",
    "select * from t1 where false",
    "select sum(b), a from t1 group by a order by sum(b)",
    "select a from t1 group by a order by count(*) desc, a",
    "select cast(a as bigint) + 1, cast(b as varchar) from t1",
    "select a / b, a % b from t1 where b <> 0",
    "select a, b from t1 union all select a, c from t2",
    "select case when a > 1 then 'x' when a = 1 then 'y' end from t1",
    "select a from t1 where d = 'x'",
    "insert into t1 select a, c from t2",
    "insert into t1(a) values (50)",
    "delete from t1 where a in (select a from t2)",
    "delete from t1 where exists (select * from t2 where t2.a = t1.a)",
    "explain select * from t1 join t2 on t1.a = t2.a",
]
VIEW = "create view v1(x) as select a from t1 where b > 0"
STATS = {"real": None, "t1big": {"t1": 1000, "t2": 1, "t3": 10}, "t2big": {"t1": 1, "t2": 1000, "t3": 1}}


def corpus(tier):
    qs = [x["sql"] for x in qgen.queries(tier)]
    return qs + [e for e in EXTRA if e not in qs]


def jobs(tier, execute=True):
    out = []
    dbs = qgen.databases(tier)
    if tier == "quick":
        dbs = [d for d in dbs if d[0] in ("plain:mix:mix", "plain:e:e", "plain:nul:nul", "keyed:mix:mix", "pkpk:mix:mix", "pkpk:dup:low")]
    stmts = corpus(tier)
    for (dbname, schema, tables) in dbs:
        for engine, layout, split in (("mem", None, False), ("disk", {"block": 64, "rowset": 1 << 20}, True)):
            for sname in (["real", "t1big"] if tier == "quick" else list(STATS)):
                if tier == "quick" and sname != "real" and dbname not in ("plain:mix:mix", "pkpk:mix:mix"):
                    continue
                setup = qgen.setup_sql(schema, tables, split) + [VIEW]
                for off in range(0, len(stmts), 100):
                    chunk = stmts[off:off + 100]
                    out.append(({"id": 0, "engine": engine, "opts": layout or {}, "setup": setup, "stats": STATS[sname], "stmts": chunk, "execute": execute},
                                {"db": dbname, "engine": engine, "layout": layout, "stats": sname}, chunk))
    return out


def run_jobs(js):
    return runner.run_many("plan", [j[0] for j in js], timeout=900, progress=50)
