"""Statement-form explorer (used by C17): every DDL / utility / odd-DML statement form of a fixed menu, alone and in
every ordered pair, is run through Database::run on both engines; whatever the statement answers (rows, ok or a
regular error), nothing may panic, the session and the catalog must stay usable (probe statements), and on disk the
directory must reopen with the probe table intact."""
from . import sqlutil as U

SETUP = [
    "create table t1(a int, b int)",
    "create table t2(a int primary key, c varchar)",
    "insert into t1 values (1, 1), (2, null), (null, 3)",
    "insert into t2 values (1, 'x'), (2, null)",
    "create view v1(x) as select a from t1 where b > 0",
]

FORMS = [
    # CREATE TABLE
    "create table x(_rowid_ int)",
    "create table x(a int, A int)",
    "create table x()",
    "create table x(a int primary key, b int primary key)",
    "create table x(a int, b int, primary key(a, b))",
    "create table x(a int, primary key(zz))",
    "create table x(a int primary key, primary key(a))",
    "create table t1(a int)",
    "create table if not exists t1(a int)",
    "create table v1(a int)",
    "create table x(a int not null, b varchar(3), c decimal(5,2), d date, e boolean, f double, g blob, h interval, i timestamp)",
    "create table x(a vector(3))",
    "create table x(a vector(0))",
    "create table postgres.x(a int)",
    "create table nosuch.x(a int)",
    "create table pg_catalog.x(a int)",
    "create table x(a int default 1)",
    # types the engine does not have
    "create table x(a real)",
    "create table x(a tinyint)",
    "create table x(a time)",
    "create table x(a vector)",
    "create table x(a json)",
    "create table x(a int[])",
    "create table x(a uuid, b int)",
    "create table x(a text, b char(3), c float, d double precision, e bytea, f timestamp with time zone, g numeric(5))",
    "select cast(a as real) from t1",
    "select cast(a as time) from t1",
    "select cast('1' as uuid)",
    "select cast(a as text), cast(a as float), cast(a as numeric(5)) from t1",
    "create function g(real) returns int language sql as 'select 1'",
    "create function g(int) returns real language sql as 'select 1'",
    "select extract(hour from date '2020-01-01')",
    "select extract(day from interval '1' day)",
    "select extract(year from c) from t2",
    "select extract(year from a) from t1",
    "create table x as select a from t1",
    # CREATE VIEW
    "create view v(_rowid_) as select a from t1",
    "create view v as select a from t1",
    "create view v(x, y) as select a from t1",
    "create view v(x, x) as select a, b from t1",
    "create view t1(x) as select a from t2",
    "create view v1(x) as select a from t2",
    "create view v(x) as select x from v1",
    "create view v(x) as select count(*) from t1",
    "create view v(x) as select a from nosuch",
    # CREATE INDEX / FUNCTION
    "create index i on t1(a)",
    "create index i on t1(zz)",
    "create index i on nosuch(a)",
    "create index i on v1(x)",
    "create index i on t1 using hnsw (a)",
    "create index i on t1 using btree (a, b)",
    "create function f(int) returns int language sql as 'select $1 + 1'",
    "create function f(int) returns int language sql as 'select nosuch'",
    "create function f() returns int language sql as 'select 1'",
    # DROP
    "drop table t1",
    "drop table t2",
    "drop table nosuch",
    "drop table if exists nosuch",
    "drop table t1, t2",
    "drop table t1, nosuch",
    "drop table v1",
    "drop view v1",
    "drop view t1",
    "drop view nosuch",
    "drop index i",
    "drop function f",
    "drop table pg_catalog.pg_tables",
    "drop schema postgres",
    # settings
    "set foo = 1",
    "set mock_rowcount_t1 = 5",
    "set mock_rowcount_t1 = 'x'",
    "set mock_rowcount_nosuch = 5",
    "set mock_rowcount_t1 = a",
    "pragma enable_optimizer",
    "pragma disable_optimizer",
    "pragma nosuch",
    # utility
    "explain create table x(a int)",
    "explain insert into t1 values (1, 1)",
    "explain delete from t1",
    "explain drop table t1",
    "explain analyze select * from t1",
    "explain explain select 1",
    "analyze t1",
    "show tables",
    "truncate t1",
    "alter table t1 add column z int",
    "begin",
    "commit",
    "create schema s",
    "create database d",
    "use postgres",
    # DML on views / system tables, odd shapes
    "insert into v1 values (1)",
    "delete from v1",
    "insert into pg_catalog.pg_tables values (1, 'a', 1, 'b')",
    "delete from pg_catalog.pg_tables",
    "select * from pg_catalog.pg_tables",
    "select * from pg_catalog.pg_attribute",
    "select * from pg_catalog.pg_indexes",
    "select * from pg_catalog.pg_stat",
    "insert into t1 values (1)",
    "insert into t1 values (1, 2, 3)",
    "insert into t1(a, a) values (1, 2)",
    "insert into t1(zz) values (1)",
    "insert into t1(_rowid_) values (1)",
    "insert into t1 values ('x', 'y')",
    "insert into t1 select * from t1",
    "insert into t2 select a, 'z' from t1",
    "insert into t2 values (null, 'n')",
    "delete from t1 where _rowid_ = 0",
    "delete from t1 where nosuch = 1",
    "delete from t1 where a = 1 or true",
    "select _rowid_, a from t1",
    "select _rowid_ from v1",
    "select f(1)",
    "select nosuch(a) from t1",
    "select max() from t1",
    "select sum() from t1",
    "select count(a, b) from t1",
    "select replace('a') from t1",
    "select repeat('a') from t1",
    "select row_number(1) over () from t1",
    "select sum(t1.*) from t1",
    "select count(t1.*) from t1",
    "select max(a) over (order by b rows between 1 preceding and current row) from t1",
    "select a from t1 order by nosuch(a)",
    "select a from t1 group by max()",
    # forms the binder does not support (must be errors)
    "select t1.* from t1",
    "select * from t1 natural join t2",
    "select * from t1 join t2 using (a)",
    "select * from t1 cross join t2",
    "select * from t1 left semi join t2 on t1.a = t2.a",
    "select * from t1 cross apply t2",
    "select 1e5",
    "select 1e400",
    "select 99999999999999999999999999999999999999999",
    "select x'ab'",
    "select ~a from t1",
    "select a # b from t1",
    "select a | b, a & b, a << 1 from t1",
    "select c || 'x' from t2",
    "select a ^ 2 from t1",
    "select interval '1' hour",
    "select interval 'x' day",
    "select interval '1' day",
    "select time '12:00:00'",
    "select date 'x'",
    "select timestamp '2020-01-01 00:00:00'",
    "select a is true, a is distinct from b from t1",
    "select a between 1 and 2, c like 'x%' from t1, t2",
    "select array[1, 2]",
    "select a::bigint, cast(c as int) from t1, t2",
    "select extract(year from date '2020-01-01')",
    "select substring('abc' from 1 for 2)",
    "select (1, 2)",
    "select * from (values (1), (2)) as v(x)",
    "values (1), (2)",
    "select x from t1 t(x, y)",
    "table t1",
    "select a from t1 tablesample (10)",
    "select a from t1 for update",
    "select a from t1 union select a from t2",
    "select a from t1 intersect select a from t2",
    "select a from t1 except select a from t2",
    "select position('a' in 'abc'), trim(' a '), ceil(1.5), floor(1.5)",
    "select $1",
    "select a from t1 where a = any (select a from t2)",
    "select a from t1 window w as (order by a)",
    "copy t1 to stdout",
    "copy t1 from stdin",
    "copy t1 to program 'cat'",
    "select 1; select 2",
    "",
    ";",
    "select",
    "copy t1 to '/dev/shm/rlv_forms_out.csv'",
    "copy t1 from '/dev/shm/rlv_forms_nosuch.csv'",
    "copy nosuch from '/dev/shm/rlv_forms_nosuch.csv'",
    "copy v1 to '/dev/shm/rlv_forms_out2.csv'",
    "copy (select * from t1) to '/dev/shm/rlv_forms_out3.csv'",
]

PROBE = [
    "create table probe_z(q int)",
    "insert into probe_z values (7)",
    "select q from probe_z",
    "select count(*) from t2",
]


def script(engine, forms):
    steps = [{"sql": s} for s in SETUP] + [{"sql": f} for f in forms] + [{"sql": s} for s in PROBE]
    if engine == "disk":
        steps += [{"op": "reopen"}, {"sql": "select q from probe_z"}, {"sql": "insert into probe_z values (8)"}, {"sql": "select count(*) from probe_z"},
                  {"op": "reopen"}, {"sql": "select count(*) from probe_z"}]
    sc = {"id": 0, "engine": engine, "steps": steps}
    if engine == "disk":
        sc["opts"] = {"block": 64, "rowset": 1 << 20}
    return sc


BAD = ("panic", "open_panic", "abort", "ok_with_task_panic", "none", "other")


def judge(engine, forms, r):
    """None if fine, else (signature, detail)."""
    if r.get("abort"):
        return "process-aborts", r
    res = r["results"]
    n0 = len(SETUP)
    for i in range(n0):
        if U.status(res[i]) not in ("rows", "ok"):
            return "MACHINERY", {"setup step": i, "result": res[i]}
    dropped_t2 = False
    for k, f in enumerate(forms):
        x = res[n0 + k]
        s = U.status(x)
        if s in BAD or (s.startswith("err") and "panicked" in x.get("msg", "")):
            return "statement-panics", {"stmt": f, "result": x}
        if f.startswith("drop table t2") or f.startswith("drop table t1, t2"):
            dropped_t2 = dropped_t2 or s in ("rows", "ok")
    p0 = n0 + len(forms)
    tail = res[p0:]
    want = [("rows", "ok"), ("rows", "ok"), ("rows",), ("rows",)]
    for j, x in enumerate(tail):
        s = U.status(x)
        if s in BAD or (s.startswith("err") and "panicked" in x.get("msg", "")):
            sig = "database-does-not-reopen" if s == "open_panic" else "later-statement-panics"
            return sig, {"stmts": forms, "probe step": j, "result": x}
    # the probe table works (t2 may have been dropped legitimately)
    for j, ok in enumerate(want):
        s = U.status(tail[j])
        if j == 3 and dropped_t2:
            continue
        if s not in ok:
            return "session-unusable-afterwards", {"stmts": forms, "probe step": j, "result": tail[j]}
    if U.decode(tail[2]) != [(7,)]:
        return "probe-rows-differ", {"stmts": forms, "got": tail[2]}
    if engine == "disk":
        # reopen, q, insert, count, reopen, count
        if U.status(tail[5]) != "rows" or U.decode(tail[5]) != [(7,)]:
            return "probe-rows-differ-after-reopen", {"stmts": forms, "got": tail[5]}
        if U.status(tail[7]) != "rows" or U.decode(tail[7]) != [(2,)] or U.status(tail[9]) != "rows" or U.decode(tail[9]) != [(2,)]:
            return "probe-rows-differ-after-reopen", {"stmts": forms, "got": [tail[7], tail[9]]}
    return None


def cases(tier):
    out = []
    for e in ("mem", "disk"):
        for f in FORMS:
            out.append((e, [f]))
    pair_engines = ("disk",) if tier == "quick" else ("mem", "disk")
    # pairs: the first statement is one that can succeed and change the catalog / settings; the second is any form
    firsts = [f for f in FORMS if f.split(" ")[0] in ("create", "drop", "set", "pragma", "insert", "delete", "copy")]
    for e in pair_engines:
        for f in firsts:
            for g in FORMS:
                out.append((e, [f, g]))
    return out
