"""Drive the E4 gate-scheduler engine: one `rlv e4` process per workload, all in parallel."""
import hashlib, json, os, subprocess, threading
from . import runner

BASE_SETUP = [
    "create table t(a int)", "create table u(a int)",
    "insert into t values (1),(2)", "insert into t values (3)",
    "insert into u values (1),(2)", "insert into u values (3)",
    # statistics are mocked so that Database::run does not pin every table for row counts (any statistics are allowed)
    "set mock_rowcount_t = 3", "set mock_rowcount_u = 3",
]


def trace_id(wname, trace):
    return hashlib.sha1((wname + "|" + "|".join(trace)).encode()).hexdigest()[:12]


def shard(workloads, n_for):
    """Split each workload w into n_for(w) shards of its schedule tree (same name; summaries are merged)."""
    out = []
    for w in workloads:
        n = n_for(w)
        if n <= 1:
            out.append(w)
        else:
            for i in range(n):
                out.append(dict(w, shard=[i, n]))
    return out


def explore_all(workloads, on_exec, workers=None):
    """Runs every workload to completion; calls on_exec(workload, record) for each execution record.
    Returns {workload name: summary} and a list of machinery problems."""
    summaries, problems = {}, []
    lock = threading.Lock()
    sem = threading.Semaphore(workers or runner.NCPU)

    def one(w):
        with sem:
            p = subprocess.Popen([runner.RLV, "e4"], stdin=subprocess.PIPE, stdout=subprocess.PIPE, stderr=subprocess.PIPE,
                                 text=True, env=runner.child_env())
            p.stdin.write(json.dumps(w) + "\n")
            p.stdin.close()
            for line in p.stdout:
                line = line.strip()
                if not line:
                    continue
                try:
                    d = json.loads(line)
                except json.JSONDecodeError:
                    with lock:
                        problems.append(f"{w['name']}: unparsable output {line[:200]}")
                    continue
                with lock:
                    if "summary" in d:
                        if w["name"] in summaries:
                            a = summaries[w["name"]]
                            a["schedules"] += d["summary"]["schedules"]
                            a["steps"] += d["summary"]["steps"]
                            a["capped"] = a["capped"] or d["summary"]["capped"]
                            a["max_preemptions_seen"] = max(a["max_preemptions_seen"], d["summary"]["max_preemptions_seen"])
                            a["divergence_retries"] = a.get("divergence_retries", 0) + d["summary"].get("divergence_retries", 0)
                        else:
                            summaries[w["name"]] = d["summary"]
                    elif "machinery" in d:
                        problems.append(f"{w['name']}: {d['machinery']} {json.dumps(d)[:600]}")
                    else:
                        on_exec(w, d)
            rc = p.wait()
            err = p.stderr.read()
            if rc != 0:
                with lock:
                    problems.append(f"{w['name']}: rlv e4 exited {rc}: {err[-300:]}")

    ts = [threading.Thread(target=one, args=(w,)) for w in workloads]
    for t in ts:
        t.start()
    for t in ts:
        t.join()
    for w in workloads:
        if w["name"] not in summaries:
            problems.append(f"{w['name']}: no summary (engine died?)")
    return summaries, problems


def rows_of(r):
    """sorted list of row tuples (as strings) or None if not a clean row result"""
    if not isinstance(r, dict) or "rows" not in r or "task_panics" in r:
        return None
    return sorted(tuple(x) for x in r["rows"])


def replay(path):
    out = subprocess.run([runner.RLV, "e4", "--replay", path], capture_output=True, text=True, env=runner.child_env())
    print(out.stdout[-6000:])
    return 0
