"""C05 — the in-memory and the on-disk engine are observationally equivalent.
Lock-step differential history exploration: every statement sequence of length <= d over a small DDL/DML
alphabet, followed by a fixed battery of queries, is executed on the memory engine and on every disk layout;
per statement the outcome class and the result (multiset; key sequence under ORDER BY) must agree."""
import json
from lib import core, runner, sqlutil as U

KINDS = {
    "pk": "create table t(k int primary key, v int, s varchar)",
    "nopk": "create table t(k int, v int, s varchar)",
    "pk2": "create table t(s varchar, k int primary key, v int not null)",
}
COLS = {"pk": "k, v, s", "nopk": "k, v, s", "pk2": "k, v, s"}
OPS = {
    "IT1": "insert into t(k, v, s) values (2, 10, 'b'), (4, 20, 'd'), (6, 10, 'f')",
    "IT2": "insert into t(k, v, s) values (1, 5, null), (5, 10, 'e'), (9, 7, ''), (4, 1, 'dd')",
    "IT3": "insert into t(k, v, s) values (3, null, 'n'), (8, null, null)",
    # 40 rows: the key column spans several 64-byte blocks (range scans must seek inside a row-set)
    "ITL": "insert into t(k, v, s) values " + ", ".join(f"({k}, {k % 9}, 'l{k % 4}')" for k in range(20, 60)),
    "IU": "insert into u values (1, 100), (4, 400), (5, null), (7, 700)",
    "ITS": "insert into t(k, v, s) select k + 10, w, 'z' from u",
    # INSERT .. SELECT whose filter selects nothing (the operator hands an empty chunk to the storage transaction)
    "IT0": "insert into t(k, v, s) select k, v, s from t where k > 1000",
    "D1": "delete from t where k < 3",
    "D2": "delete from t where v = 10",
    "DU": "delete from u where k = 4",
    "DROPU": "drop table u",
    "C": None,
}
# only in the histories that start from the churned state (and in all histories of the thorough tier)
MORE_OPS = {"DALL": "delete from t", "R": None}
ALL_OPS = dict(OPS, **MORE_OPS)
# non-initial start state: two row-sets deleted completely, compacted away, database reopened twice (disk)
CHURN = ["IT1", "IT2", "D1", "DALL", "C", "R", "R"]       # (two delete vectors per row-set)
QUERIES = [
    ("select k, v, s from t", None),
    ("select k, v from t order by k", [0]),
    ("select k from t where k > 2 and k <= 6", None),
    ("select k, s from t where k = 4", None),
    ("select s, k from t where k >= 5 order by k desc", [1]),
    ("select v, k from t where k < 4 or k > 7", None),
    ("select t.k, u.w from t join u on t.k = u.k", None),
    ("select k, count(*), sum(v) from t group by k", None),
    ("select count(*), min(k), max(v) from t", None),
    ("select v, count(*) from t group by v", None),
    ("select k from t where v is null", None),
    ("select v, k from t order by v, k", [0, 1]),
    ("select k, w from u where k < 5", None),
    ("select k from t where 4 < k", None),
    ("select k from t where k > 41", None),
    ("select k from t where k > 35", None),
    ("select k, s from t where k > 51", None),
    ("select k, v from t where k >= 33 and k < 47", None),
    ("select k from t where k > 35 and v = 1", None),
]


def depth(tier):
    return 3 if tier == "quick" else 4


def layouts(tier):
    return U.LAYOUTS_QUICK + (U.LAYOUTS_MORE if tier == "thorough" else [])


def steps_of(kind, h, engine="disk"):
    steps = [{"sql": KINDS[kind]}, {"sql": "create table u(k int primary key, w int)"}]
    for o in h:
        if o == "R":
            # shutdown + reopen on disk; nothing on the memory engine (same number of steps)
            steps.append({"op": "reopen"} if engine == "disk" else {"op": "compact"})
        else:
            steps.append({"op": "compact"} if o == "C" else {"sql": ALL_OPS[o]})
    steps += [{"sql": q} for q, _ in QUERIES]
    return steps


def cases(tier):
    ops = list(OPS) if tier == "quick" else list(ALL_OPS)
    for kind in KINDS:
        for h in U.seqs(ops, depth(tier), 1):
            yield {"kind": kind, "history": list(h)}
        for h in U.seqs(list(ALL_OPS), depth(tier) - 1, 0):
            yield {"kind": kind, "history": CHURN + list(h)}


def norm(r, okeys):
    st = U.status(r)
    if st != "rows":
        return (st,)
    rows = U.decode(r)
    seq = tuple(tuple(x[i] for i in okeys) for x in rows) if okeys else None
    # a result with no rows may come back as zero chunks (no column types to compare)
    return ("rows", tuple(r["cols"]) if rows else (), tuple(sorted(rows, key=lambda x: tuple(U.key_nullfirst(v) for v in x))), seq)


def judge_batch(chk, batch, res, lays, per, states):
    trans = 0
    for ci, c in enumerate(batch):
        rs = res[ci * per:(ci + 1) * per]
        mem = rs[0]
        nh = len(c["history"])
        nontriv = any(o.startswith(("I", "D")) and o != "DROPU" for o in c["history"])
        for li, l in enumerate(lays):
            d = rs[1 + li]
            base = dict(c, layout=l)
            if mem.get("abort") or d.get("abort"):
                chk.fail(core.case_id(base), "abort", base, {"mem": mem.get("abort"), "disk": d.get("abort")})
                continue
            mr, dr = mem["results"], d["results"]
            for si in range(2, len(mr)):
                is_q = si >= 2 + nh
                if not is_q and si != 1 + nh:
                    continue      # intermediate history statements are the last statement of a shorter history
                what = QUERIES[si - 2 - nh][0] if is_q else "<last history statement>"
                cc = dict(base, stmt=what)
                cid = core.case_id(cc)
                okeys = QUERIES[si - 2 - nh][1] if is_q else None
                a, b = norm(mr[si], okeys), norm(dr[si], okeys)
                trans += 1
                if a == b:
                    chk.ok(cid, nontrivial=nontriv, outcome=a[0], sample={"case": cc, "both": str(a)[:200]})
                    if is_q and si == 2 + nh:
                        states.add((c["kind"], a))
                else:
                    if a[0] != b[0]:
                        sig = f"outcome:{a[0]}-vs-{b[0]}"
                    elif a[2] != b[2]:
                        sig = "rows-differ"
                    elif a[1] != b[1]:
                        sig = "column-types-differ"
                    else:
                        sig = "order-differs"
                    chk.fail(cid, sig, cc, {"mem": mr[si], "disk": dr[si]})
    return trans


# ---- every column type (the alphabets above only use INT and VARCHAR columns)
TYPED_DDL = ("create table w(k int primary key, si smallint, bi bigint, d double, de decimal(10,2), dt date, b boolean, "
             "iv interval, bl blob, ts timestamp, s varchar not null)")
TYPED_OPS = {
    "W1": "insert into w values (2, 1, 10000000000, 1.5, 1.25, date '2024-02-29', true, interval '14' month, '\\x00ff', '2024-02-29 23:59:59', 'a'), "
          "(4, -5, -70000000000, -0.25, -0.01, date '1970-01-01', false, cast('1 day 2 hours 3 seconds' as interval), 'a''b', '1970-01-01 00:00:00', ''), "
          "(6, null, null, null, null, null, null, null, null, null, 'n')",
    "W2": "insert into w values (1, 32767, 922337203685477, 123456.789, 12345678.90, date '9999-12-31', true, interval '-2' month, 'c\\d', '2024-02-29 00:00:00', 'x,y'), "
          "(5, 0, -92233720368547, 0.5, 0.00, date '2023-03-01', false, cast('1 hour' as interval), '', '1969-12-31 23:59:59', ' lead')",
    "WD": "delete from w where k < 3",
    "WS": "insert into w select k + 10, si, bi, d, de, dt, b, iv, bl, ts, s from w",
    "C": None,
    "R": None,
}
TYPED_QUERIES = [("select * from w", None), ("select k, iv, bl, de from w order by k", [0]), ("select k, d, ts from w where k >= 4", None),
                 ("select count(*), count(si), sum(bi), min(d), max(de), min(dt), max(ts), min(iv) from w", None),
                 ("select b, count(*) from w group by b", None), ("select k from w where iv > interval '0' day", None)]


def typed_part(chk, tier, lays):
    d = 2 if tier == "quick" else 3
    cs = [list(h) for h in U.seqs(list(TYPED_OPS), d, 1)]
    scripts = []
    for h in cs:
        def steps(engine):
            st = [{"sql": TYPED_DDL}]
            for o in h:
                if o == "R":
                    st.append({"op": "reopen"} if engine == "disk" else {"op": "compact"})
                elif o == "C":
                    st.append({"op": "compact"})
                else:
                    st.append({"sql": TYPED_OPS[o]})
            return st + [{"sql": q} for q, _ in TYPED_QUERIES]
        scripts.append({"id": 0, "engine": "mem", "steps": steps("mem")})
        for l in lays:
            scripts.append({"id": 0, "engine": "disk", "opts": l, "steps": steps("disk")})
    res = runner.run_many("sql", scripts, timeout=120)
    per = 1 + len(lays)
    for ci, h in enumerate(cs):
        rs = res[ci * per:(ci + 1) * per]
        mem = rs[0]
        for li, l in enumerate(lays):
            dsk = rs[1 + li]
            base = {"kind": "typed", "history": h, "layout": l}
            if mem.get("abort") or dsk.get("abort"):
                chk.fail(core.case_id(base), "abort", base, {"mem": mem.get("abort"), "disk": dsk.get("abort")})
                continue
            mr, dr = mem["results"], dsk["results"]
            for k, o in enumerate(h):
                if o in ("W1", "W2") and U.status(mr[1 + k]) != "rows":
                    chk.machinery(f"typed part: {o} is rejected: {json.dumps(mr[1 + k])[:200]}")
            for si in range(len(h), len(mr)):            # the last history statement and every query
                is_q = si >= 1 + len(h)
                what = TYPED_QUERIES[si - 1 - len(h)][0] if is_q else "<last history statement>"
                okeys = TYPED_QUERIES[si - 1 - len(h)][1] if is_q else None
                cc = dict(base, stmt=what)
                a, b = norm(mr[si], okeys), norm(dr[si], okeys)
                if a == b:
                    chk.ok(core.case_id(cc), nontrivial=True, outcome=a[0], sample={"case": cc})
                else:
                    sig = f"outcome:{a[0]}-vs-{b[0]}" if a[0] != b[0] else "rows-differ" if a[2] != b[2] else "column-types-differ" if a[1] != b[1] else "order-differs"
                    chk.fail(core.case_id(cc), sig + "@typed", cc, {"mem": mr[si], "disk": dr[si]})
    return len(scripts)


def run(tier, seed):
    lays = layouts(tier)
    chk = core.Check("C05", tier, "model_checking",
                     f"all statement histories of length 1..{depth(tier)} over {list(OPS) if tier == 'quick' else list(ALL_OPS)} from the empty database, and all histories of length 0..{depth(tier) - 1} over {list(ALL_OPS)} from the churned start state {CHURN} (R = shutdown+reopen on disk), x table kinds {list(KINDS)}, each followed by "
                     f"{len(QUERIES)} queries (pk range scans, joins on pk, group by, order by); executed in lock-step on the memory engine and on "
                     f"{len(lays)} disk layouts; plus all histories of length 1..{2 if tier == 'quick' else 3} over {list(TYPED_OPS)} on a table with a column of every type (smallint, bigint, double, decimal, date, boolean, interval with a sub-day part, blob, timestamp, varchar not null); "
                     "a case = (kind, history, statement index, layout); non-trivial = history contains a DML statement", seed)
    cs = list(cases(tier))
    per = 1 + len(lays)
    states, trans = set(), 0
    nscripts = 0
    BATCH = 1500
    for b0 in range(0, len(cs), BATCH):
        batch = cs[b0:b0 + BATCH]
        scripts = []
        for c in batch:
            scripts.append({"id": 0, "engine": "mem", "steps": steps_of(c["kind"], c["history"], "mem")})
            st = steps_of(c["kind"], c["history"], "disk")
            for l in lays:
                scripts.append({"id": 0, "engine": "disk", "opts": l, "steps": st})
        res = runner.run_many("sql", scripts, timeout=120)
        nscripts += len(scripts)
        trans += judge_batch(chk, batch, res, lays, per, states)
    nscripts += typed_part(chk, tier, lays)
    chk.extra.update(states=len(states), transitions=trans, traces_validated_against_impl=nscripts,
                     histories=len(cs), layouts=lays)
    chk.assumptions += ["single session; compaction forced through the real compactor with a paused clock (no-op on the memory engine)",
                        "error classes compared at the level parse/bind/execute/storage/panic, not message text"]
    return chk


def replay(path):
    d = json.load(open(path))
    c = d["case"]
    out = runner.run_many("sql", [{"id": "mem", "engine": "mem", "steps": steps_of(c["kind"], c["history"], "mem")},
                                  {"id": "disk", "engine": "disk", "opts": c["layout"], "steps": steps_of(c["kind"], c["history"], "disk")}])
    print(json.dumps(out, indent=1))
    return 0
