"""C15 — a failing statement reports an error, never a partial answer.
Fault enumeration: for each statement of a battery of plan shapes (scan/filter/projection, hash / nested-loop / merge
join, hash / sort / simple aggregation, order, top-N, limit, INSERT..SELECT, DELETE) on both engines with multi-chunk
inputs, one fault-free run lists every (operator, item index) position; then exactly one fault (error | panic) is
injected at every position. Oracle: the statement returns Err, or Ok with exactly the fault-free rows (the position was
never demanded); never Ok with other rows; after a failed DML the table equals its pre-statement content (also after reopen)."""
import json, os
from lib import core, runner, sqlutil as U

SCRATCH = os.environ.get("RLV_SCRATCH", "/dev/shm")
FILES = []

N = 2300          # rows per big table: 3 chunks of <= 1024 rows
MANY = 20         # chunks of table m


def setup(pk):
    key = " primary key" if pk else ""
    rows_a = ",".join(f"({i},{i % 7})" for i in range(N))
    rows_b = ",".join(f"({i},{i % 5})" for i in range(0, N, 2))
    # m: MANY single-row chunks (one INSERT each): more chunks than an operator's output channel holds (16), so that a
    # producer on the late-polled side of a join runs until its channel is full before anything is consumed
    many = [f"insert into m values ({i * 100}, {i + 1})" for i in range(MANY)]
    return [f"create table a(id int{key}, v int)", f"create table b(id int{key}, w int)", "create table c(id int, x int)", "create table m(id int, x int)",
            f"insert into a values {rows_a}", f"insert into b values {rows_b}"] + many


STMTS = [
    ("scan-filter-proj", "select id + 1, v from a where v > 2", False),
    ("hash-join", "select a.id, b.w from a join b on a.v = b.w where a.id < 40", False),
    ("pk-join", "select a.id, b.w from a join b on a.id = b.id", False),
    ("nested-loop-join", "select a.id, b.id from a join b on a.id < b.id where a.id > 2290 and b.id > 2290", False),
    ("left-join", "select a.id, b.w from a left join b on a.id = b.id where a.id < 100", False),
    ("hash-agg", "select v, count(*), sum(id) from a group by v", False),
    ("simple-agg", "select count(*), sum(v), min(id) from a", False),
    ("pk-group", "select id, count(*) from a group by id", False),
    ("order", "select id, v from a order by v, id", False),
    ("top-n", "select id, v from a order by v desc, id limit 5", False),
    ("limit", "select id from a limit 3", False),
    ("distinct", "select distinct v from a", False),
    ("semi-join", "select id from a where id in (select id from b where w = 1)", False),
    # EXISTS / NOT EXISTS with a non-equi correlation: nested-loop semi / anti join (buffers its right input)
    ("nl-semi-join", "select a.id from a where a.id > 2290 and exists (select * from b where b.id > a.id and b.w > 0)", False),
    ("nl-anti-join", "select a.id from a where a.id > 2290 and not exists (select * from b where b.id > a.id and b.w = 1)", False),
    ("many-chunks-probe", "select a.id, m.x from a join m on a.id = m.id", False),
    ("many-chunks-build", "select m.x, a.v from m join a on m.id = a.id", False),
    ("many-chunks-left-filter", "select a.v, m.id from a left join m on a.id = m.id and m.x > 0 where a.id < 1000", False),
    # export of a query / of a table: the writer runs on its own thread and reports the number of rows it wrote; a failing
    # child must fail the statement (the file may be left partial, the statement may not report success)
    ("copy-to-query", "copy (select id + 1, v from a where v > 2) to '@FILE@'", False),
    ("copy-to-table", "copy a to '@FILE@'", False),
    ("copy-to-join", "copy (select a.id, m.x from a join m on a.id = m.id) to '@FILE@' (header true)", False),
    ("insert-select", "insert into c select id, v from a where v < 3", True),
    ("insert-join", "insert into c select a.id, b.w from a join b on a.id = b.id", True),
    ("delete", "delete from a where v = 3", True),
]
OBSERVE = ["select count(*), sum(id) from a", "select count(*), sum(id), sum(x) from c"]


def jobs(tier):
    out = []
    engines = [("mem", None, False), ("disk", {"block": 16384, "rowset": 1 << 20}, True)]
    if tier == "thorough":
        engines.append(("disk", {"block": 64, "rowset": 1 << 20}, False))
    for engine, opts, pk in engines:
        for name, sql, dml in STMTS:
            if "@FILE@" in sql:
                f = os.path.join(SCRATCH, f"rlv-c15-{os.getpid()}-{name}-{engine}-{(opts or {}).get('block', 0)}.csv")
                FILES.append(f)
                sql = sql.replace("@FILE@", f)
            out.append({"id": {"shape": name, "engine": engine, "layout": opts, "pk": pk}, "engine": engine, "opts": opts or {}, "setup": setup(pk),
                        "stmt": sql, "observe": OBSERVE, "_dml": dml})
    return out


def run(tier, seed):
    js = jobs(tier)
    chk = core.Check("C15", tier, "fault_enumeration",
                     f"{len(STMTS)} statement shapes x {{memory, disk (pk tables: merge join / sort-agg eligible)}} over {N}-row tables (3 chunks) and a {MANY}-chunk table (more chunks than an operator's 16-slot output channel); one fault-free run lists all "
                     "(operator, item index, occurrence) positions including end-of-stream; one fault in {error, panic} injected at every position; "
                     "a case = (shape, engine, operator, k, occurrence, kind); oracle: Err, or Ok with the complete fault-free rows; failed DML leaves tables unchanged (also after reopen); "
                     "non-trivial = the fault was actually reached (fired). Plus COPY .. FROM files whose record k in {0,1,1023,1024,1025,2047,2048,2500,2999} is malformed "
                     "(bad value, extra field, missing field) or that do not exist: the statement must fail and load nothing (also after reopen)", seed)
    try:
        res = runner.run_many("fault", js, timeout=1800, progress=4)
    finally:
        for f in FILES:
            try:
                os.remove(f)
            except OSError:
                pass
    npos = 0
    for j, r in zip(js, res):
        base = j["id"]
        if r.get("abort"):
            chk.fail(core.case_id(base), "abort", base, r)
            continue
        ref = r["reference"]
        if "result" not in ref or U.status(ref["result"]) != "rows":
            # the statement itself cannot run on this engine (planner/executor defect: C17's business, not C15's)
            chk.skip("fault-free run fails: " + U.status(ref.get("result", {})))
            continue
        npos += len(r["positions"])
        pre_obs = None
        for run_ in r["runs"]:
            c = dict(base, op=run_["op"], k=run_["k"], occ=run_["occ"], kind=run_["kind"])
            cid = core.case_id(c)
            if "result" not in run_:
                chk.fail(cid, "setup-or-open-failed", c, run_)
                continue
            res_ = run_["result"]
            st = U.status(res_)
            fired = run_.get("fired")
            sig = None
            if st == "ok_with_task_panic" and {k: v for k, v in res_.items() if k != "task_panics"} == ref["result"]:
                st = "rows"         # a panic behind an already satisfied consumer (e.g. LIMIT): the answer is complete
                res_ = ref["result"]
            if run_["op"] in ("insert", "delete") and j["_dml"]:
                # a fault on the DML operator's own output happens after its commit point: not an operator failure the
                # engine could still roll back; excluded from the enumerated space
                chk.skip("fault on the committing DML operator's own output")
                continue
            if st == "rows":
                if res_ != ref["result"]:
                    sig = "ok-with-wrong-or-missing-rows"
                elif run_["observe"] != ref["observe"]:
                    sig = "ok-but-state-differs-from-fault-free-run"
            elif st.startswith("err") or st == "panic":
                if st == "panic":
                    sig = "statement-panicked"          # the caller got a panic instead of an error
                elif j["_dml"]:
                    # failed DML: tables must equal the pre-statement content = fault-free reference BEFORE the statement.
                    # observe(reference) is post-statement; pre-statement content is known analytically:
                    pass
            else:
                sig = "unexpected:" + st
            if sig is None and j["_dml"] and st != "rows":
                want = PRE[base["shape"]]
                got = [tuple(x["rows"][0]) if U.is_rows(x) else None for x in run_["observe"]]
                if got != want:
                    sig = "failed-dml-changed-the-table"
                elif "observe_reopen" in run_:
                    got2 = [tuple(x["rows"][0]) if U.is_rows(x) else None for x in run_["observe_reopen"]] if isinstance(run_["observe_reopen"], list) else None
                    if got2 != want:
                        sig = "failed-dml-changed-the-table-after-reopen"
            if sig is None and run_.get("shutdown_failed"):
                sig = "shutdown-fails-after-fault"
            if sig:
                chk.fail(cid, sig + "@" + run_["kind"], c, {"result": res_, "observe": run_.get("observe"), "reference": ref["result"]}, outcome=sig)
            else:
                chk.ok(cid, nontrivial=bool(fired), outcome=("err" if st != "rows" else "ok-complete"), sample={"case": c, "status": st})
    copy_from_failures(chk, tier)
    chk.extra.update(fault_positions=npos, statements=len(js))
    chk.assumptions += ["faults are injected in the operator's output stream (hook in executor::Builder::spawn); a panic is raised inside the operator's stream poll",
                        "Ok with the complete fault-free result is accepted (the faulted position was not needed, e.g. behind a satisfied LIMIT)"]
    return chk


# ---- COPY .. FROM whose reader fails by itself (a malformed record at row k, a missing file): not an injected fault on an
# operator's output but a failure INSIDE an operator's own worker; the statement must fail and load nothing
def copy_from_failures(chk, tier):
    import os
    scratch = os.environ.get("RLV_SCRATCH", "/dev/shm")
    n = 3000
    files, scripts, meta = [], [], []
    variants = []
    for k in (0, 1, 1023, 1024, 1025, 2047, 2048, 2500, n - 1):
        variants.append(("bad-value", k))
        variants.append(("extra-field", k))
        variants.append(("missing-field", k))
    variants.append(("missing-file", 0))
    variants.append(("ok", 0))
    for engine in ("mem", "disk"):
        for kind, k in variants:
            f = os.path.join(scratch, f"rlv-c15-{os.getpid()}-{engine}-{kind}-{k}.csv")
            if kind != "missing-file":
                with open(f, "w") as fh:
                    for i in range(n):
                        if i == k and kind == "bad-value":
                            fh.write(f"{i},x{i}\n")
                        elif i == k and kind == "extra-field":
                            fh.write(f"{i},{i},{i}\n")
                        elif i == k and kind == "missing-field":
                            fh.write(f"{i}\n")
                        else:
                            fh.write(f"{i},{i % 7}\n")
                files.append(f)
            steps = [{"sql": "create table c(id int, x int)"}, {"sql": "insert into c values (-1, -1), (-2, -2), (-3, -3)"},
                     {"sql": f"copy c from '{f}'"}, {"sql": "select count(*), sum(id) from c"}]
            if engine == "disk":
                steps += [{"op": "reopen"}, {"sql": "select count(*), sum(id) from c"}]
            scripts.append({"id": 0, "engine": engine, "opts": {"block": 16384, "rowset": 1 << 20}, "steps": steps})
            meta.append({"shape": "copy-from", "engine": engine, "failure": kind, "row": k})
    try:
        res = runner.run_many("sql", scripts, timeout=300)
    finally:
        for f in files:
            try:
                os.remove(f)
            except OSError:
                pass
    pre = [("3", "-6")]
    full = [(str(3 + n), str(-6 + n * (n - 1) // 2))]
    for c, r in zip(meta, res):
        cid = core.case_id(c)
        if r.get("abort"):
            chk.fail(cid, "abort", c, r)
            continue
        rs = r["results"]
        st = U.status(rs[2])
        obs = [tuple(x["rows"][0]) if U.is_rows(x) and x["rows"] else None for x in rs[3:] if "sql" not in x and ("rows" in x or "err" in x)]
        obs = [o for o in obs if o is not None]
        if c["failure"] == "ok":
            if st != "rows" or any(o != full[0] for o in obs):
                chk.machinery(f"copy-from control case does not load: {json.dumps(rs[2])[:200]} {obs}")
            else:
                chk.ok(cid, nontrivial=True, outcome="ok-complete", sample={"case": c})
            continue
        sig = None
        if st == "rows":
            sig = "ok-with-wrong-or-missing-rows"
        elif st in ("panic", "ok_with_task_panic"):
            sig = "statement-panicked"
        elif any(o != pre[0] for o in obs):
            sig = "failed-dml-changed-the-table"
        if sig:
            chk.fail(cid, sig + "@copy-from", c, {"result": rs[2], "table": obs}, outcome=sig)
        else:
            chk.ok(cid, nontrivial=True, outcome="err", sample={"case": c})


def _pre():
    n_a, s_a = N, sum(range(N))
    pre = (str(n_a), str(s_a))
    empty_c = ("0", None, None)
    return {name: [pre, empty_c] for name, _, dml in STMTS if dml}


PRE = _pre()


def replay(path):
    d = json.load(open(path))
    c = d["case"]
    for j in jobs("thorough"):
        if j["id"] == {k: c[k] for k in ("shape", "engine", "layout", "pk")}:
            r = runner.run_many("fault", [j], timeout=1800)[0]
            for run_ in r["runs"]:
                if (run_["op"], run_["k"], run_["occ"], run_["kind"]) == (c["op"], c["k"], c["occ"], c["kind"]):
                    print(json.dumps(run_)[:3000])
            return 0
    return 2
