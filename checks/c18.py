"""C18 — corrupted column data is detected, not returned.
Fault enumeration over stored bytes: a two-table database (CRC32 checksums as opened from the command line, tiny
blocks so that columns span several blocks, two row-sets in the victim table) is built and shut down; then for every
*.col / *.idx file of the victim table: every byte x {bit flip (rotating bit; all 8 bits in the thorough tier),
overwrite 0x00, overwrite 0xFF} and every truncation length. Each corrupted copy is opened and queried:
[Q_A, Q_A again, Q_B] and, separately, [forced compaction, Q_A, Q_B]. Oracle: every Q_A returns Err or exactly the
original rows; Q_B (untouched table) returns its rows; the database opens."""
import glob, json, os, shutil
from lib import core, runner, sqlutil as U

OPTS = {"block": 64, "rowset": 1 << 20}
# the base database is written with a tiny row-set budget, so that the two row-sets of the victim table are NOT merged by
# the compaction pass that runs at shutdown: the corrupted copies (opened with OPTS) still have two row-sets to compact
BUILD_OPTS = {"block": 64, "rowset": 16}
SETUP = [
    "create table a(k int primary key, s varchar, v int)",
    "create table b(k int, w int)",
    "insert into a values " + ",".join(f"({i},'s{i % 5}',{i * 3 if i % 4 else 'null'})" for i in range(0, 60, 2)),      # 30 rows: 3 blocks per INT column (a block count with two bits set)
    "insert into a values " + ",".join(f"({i},'t{i % 3}',{i})" for i in range(1, 30, 2)),
    "insert into b values (1,10),(2,20),(3,30)",
]
Q_A = "select k, s, v from a"
Q_A2 = "select count(*), sum(v) from a where k >= 10"
Q_B = "select k, w from b"
SCRATCH = os.environ.get("RLV_SCRATCH", "/dev/shm")


def build_base():
    r = runner.run_many("sql", [{"id": "base", "engine": "disk", "opts": BUILD_OPTS, "keep": True,
                                 "steps": [{"sql": s} for s in SETUP] + [{"sql": Q_A}, {"sql": Q_A2}, {"sql": Q_B}]}])[0]
    res = r["results"]
    if any(U.status(x) != "rows" for x in res):
        raise runner.MachineryError("C18: base database could not be built: " + json.dumps(res)[:300])
    return r["dir"], [U.srt(U.decode(x)) for x in res[-3:]]


def corruptions(base, tier):
    """yield (relpath, kind, offset, value)"""
    files = sorted(glob.glob(os.path.join(base, "0_*", "*.col")) + glob.glob(os.path.join(base, "0_*", "*.idx")))
    for f in files:
        rel = os.path.relpath(f, base)
        data = open(f, "rb").read()
        n = len(data)
        for off in range(n):
            # index files are small and their footer (block count, checksum type) is not covered by the checksum: all 8 bits
            bits = range(8) if tier == "thorough" or rel.endswith(".idx") else [off % 8]
            for b in bits:
                yield rel, "flip", off, b
            if data[off] != 0x00:
                yield rel, "set", off, 0x00
            if data[off] != 0xFF:
                yield rel, "set", off, 0xFF
        for ln in range(n):
            yield rel, "trunc", ln, 0


def apply(base, dst, c):
    shutil.copytree(base, dst)
    rel, kind, off, val = c
    p = os.path.join(dst, rel)
    data = bytearray(open(p, "rb").read())
    if kind == "flip":
        data[off] ^= (1 << val)
    elif kind == "set":
        data[off] = val
    else:
        data = data[:off]
    open(p, "wb").write(bytes(data))


def run(tier, seed):
    chk = core.Check("C18", tier, "fault_enumeration",
                     "every *.col/*.idx file of the victim table (3 columns x 2 uncompacted row-sets, several 64-byte blocks each, CRC32) x every byte x [bit flip"
                     + (" (all 8 bits)" if tier == "thorough" else " (one rotating bit)") + ", 0x00, 0xFF] + every truncation length; two query sequences per corruption "
                     "(read / repeated read / other table; compaction first); a case = (file, kind, offset, value, sequence); "
                     "non-trivial = every case (each changes stored bytes)", seed)
    base, want = build_base()
    cs = list(corruptions(base, tier))
    work = os.path.join(SCRATCH, f"rlv-c18-{os.getpid()}")
    shutil.rmtree(work, ignore_errors=True)
    os.makedirs(work)
    scripts, meta = [], []
    B = 400
    try:
        for start in range(0, len(cs), B):
            batch = cs[start:start + B]
            scripts, meta = [], []
            for i, c in enumerate(batch):
                for seq in ("read", "compact"):
                    d = os.path.join(work, f"c{start + i}-{seq}")
                    apply(base, d, c)
                    steps = ([{"sql": Q_A}, {"sql": Q_A2}, {"sql": Q_A}, {"sql": Q_B}] if seq == "read"
                             else [{"op": "compact"}, {"sql": Q_A}, {"sql": Q_A2}, {"sql": Q_B}])
                    scripts.append({"id": 0, "engine": "disk", "opts": OPTS, "dir": d, "steps": steps})
                    meta.append((c, seq))
            res = runner.run_many("sql", scripts, timeout=120)
            for (c, seq), s, r in zip(meta, scripts, res):
                shutil.rmtree(s["dir"], ignore_errors=True)
                case = {"file": c[0], "kind": c[1], "offset": c[2], "value": c[3], "sequence": seq}
                cid = core.case_id(case)
                ftype = "idx" if c[0].endswith(".idx") else "col"
                if r.get("abort"):
                    chk.fail(cid, f"process-aborts@{ftype}", case, r, outcome="abort")
                    continue
                rs = r["results"]
                if "open_panic" in rs[0]:
                    chk.fail(cid, f"database-does-not-open@{ftype}", case, rs[0], outcome="open-fails")
                    continue
                names = ["Q_A", "Q_A2", "Q_A(repeat)", "Q_B"] if seq == "read" else ["compact", "Q_A", "Q_A2", "Q_B"]
                wants = [want[0], want[1], want[0], want[2]] if seq == "read" else [None, want[0], want[1], want[2]]
                sig = None
                for nm, w, x in zip(names, wants, rs):
                    st = U.status(x)
                    if nm == "compact":
                        continue
                    if nm == "Q_B":
                        if st != "rows" or U.srt(U.decode(x)) != w:
                            sig = f"unaffected-table-unreadable@{ftype}"
                            detail = {"query": nm, "result": x}
                        continue
                    if st == "rows":
                        if U.srt(U.decode(x)) != w:
                            sig = f"altered-rows-returned:{nm}@{ftype}"
                            detail = {"query": nm, "got": x["rows"][:8], "n": len(x["rows"])}
                            break
                    elif st == "panic" or st == "ok_with_task_panic":
                        sig = f"panic-instead-of-error:{nm}@{ftype}"
                        detail = {"query": nm, "result": json.dumps(x)[:300]}
                        break
                    elif not st.startswith("err"):
                        sig = f"unexpected:{st}@{ftype}"
                        detail = {"query": nm, "result": x}
                        break
                if sig:
                    chk.fail(cid, sig, case, detail, outcome=sig.split("@")[0])
                else:
                    det = sum(1 for x in rs if U.status(x).startswith("err"))
                    chk.ok(cid, nontrivial=True, outcome=f"detected-in-{det}-queries" if det else "harmless(original rows)",
                           sample={"case": case, "statuses": [U.status(x) for x in rs]})
    finally:
        shutil.rmtree(work, ignore_errors=True)
        shutil.rmtree(base, ignore_errors=True)
    chk.extra.update(corruptions=len(cs), files=len({c[0] for c in cs}))
    chk.assumptions += ["checksum type CRC32 (default_for_cli); corruption happens while the database is closed",
                        "an Err from a query counts as detection; a harmless corruption (e.g. of padding) may still return the original rows"]
    return chk


def replay(path):
    d = json.load(open(path))
    c = d["case"]
    base, want = build_base()
    dst = os.path.join(SCRATCH, f"rlv-c18-replay-{os.getpid()}")
    shutil.rmtree(dst, ignore_errors=True)
    apply(base, dst, (c["file"], c["kind"], c["offset"], c["value"]))
    steps = ([{"sql": Q_A}, {"sql": Q_A2}, {"sql": Q_A}, {"sql": Q_B}] if c["sequence"] == "read" else [{"op": "compact"}, {"sql": Q_A}, {"sql": Q_A2}, {"sql": Q_B}])
    r = runner.run_many("sql", [{"id": 0, "engine": "disk", "opts": OPTS, "dir": dst, "steps": steps}])[0]
    print(json.dumps(r)[:3000])
    shutil.rmtree(dst, ignore_errors=True)
    shutil.rmtree(base, ignore_errors=True)
    return 0
