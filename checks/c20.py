"""C20 — CSV export followed by import reproduces the table.
Exhaustive small-scope enumeration: column type lists of length 1-2 over the scalar types x boundary cell values
(NULL, '', strings containing the delimiter / quote / newline / leading spaces / the text NULL, extreme numbers, dates) x
CSV options (delimiter, quote, header) x both engines: COPY t TO f; COPY u FROM f; multiset(t) == multiset(u)."""
import itertools, json, os
from lib import core, runner, sqlutil as U

SCRATCH = os.environ.get("RLV_SCRATCH", "/dev/shm")
TYPES = {
    "int": ["1", "-2147483648", "2147483647", "0", "null"],
    "bigint": ["9223372036854775807", "-1", "null"],
    "smallint": ["-32768", "7", "null"],
    "double": ["1.5", "-0.25", "1e300", "0", "null"],
    "boolean": ["true", "false", "null"],
    "decimal(10,2)": ["1.50", "-0.01", "12345678.90", "null"],
    "date": ["date '2024-02-29'", "date '1970-01-01'", "null"],
    "timestamp": ["timestamp '2024-02-29 23:59:59'", "null"],
    "interval": ["interval '1' day", "interval '-2' month", "cast('1 day 2 hours 3 seconds' as interval)", "interval '0' day", "cast('30 hours' as interval)",
                 "cast('24 hours' as interval)", "cast('90 minutes' as interval)", "null"],
    "vector(3)": ["'[1,2,3]'", "'[0.5,-1,1e3]'"],
    "blob": ["'\\x00ff'", "'abc'", "'a''b'", "'c\\d,e'", "'q\"uo'", "''", "null"],
    "varchar": ["'a'", "''", "'a,b'", "'say \"hi\"'", "'it''s'", "'l1\nl2'", "' lead'", "'NULL'", "'x|y'", "'tab\there'", "'say \"hi\", it''s me'", "'q\"|\"q'",
                "'back\\slash'", "'b\\\"q,d'", "'trail '", "' '", "'\\'", "null"],
}
OPTIONS = {
    "default": "",
    "pipe": " (delimiter '|')",
    "tab+header": " (delimiter E'\\t', header true)",
    "squote": " (quote '''')",
    "header": " (header true)",
    "escape": " (escape '\\')",
    "escape+pipe": " (delimiter '|', escape '\\')",
}


def tables(tier):
    """(types, rows) with every value of every type appearing, simplest first"""
    out = []
    for ty, vals in TYPES.items():
        # single column: every value alone (1-row tables), then all together
        for v in vals:
            out.append(([ty], [[v]]))
        out.append(([ty], [[v] for v in vals]))
    pairs = [("int", "varchar"), ("varchar", "int"), ("varchar", "varchar"), ("double", "boolean"), ("date", "decimal(10,2)")]
    if tier == "thorough":
        pairs = list(itertools.product(TYPES, repeat=2))
    for a, b in pairs:
        rows = []
        for i, va in enumerate(TYPES[a]):
            vb = TYPES[b][i % len(TYPES[b])]
            rows.append([va, vb])
        for vb in TYPES[b]:
            rows.append([TYPES[a][0], vb])
        out.append(([a, b], rows))
        if tier == "thorough":
            for va in TYPES[a]:
                for vb in TYPES[b]:
                    out.append(([a, b], [[va, vb]]))
    # a table spanning more than one 1024-row chunk
    out.append((["int", "varchar"], [[str(i), f"'v{i % 7}'" if i % 5 else "null"] for i in range(1030)]))
    return out


def rows_by_value(r):
    """decoded rows; DECIMAL cells without trailing zeros of the fraction (1.5 and 1.50 are the same value: the scale a
    decimal is printed with depends on how it was produced, not on the column)"""
    out = []
    for row in U.decode(r):
        out.append(tuple(v.rstrip("0").rstrip(".") if ty == "Decimal" and isinstance(v, str) and "." in v else v for ty, v in zip(r["cols"], row)))
    return out


def probes(rows):
    """one `c0 = lit and c1 = lit ...` predicate per distinct row (IS NULL for NULL cells); small tables only"""
    if len(rows) > 40:
        return []
    out = []
    for r in rows:
        p_ = " and ".join(f"c{i} is null" if v == "null" else f"c{i} = {v}" for i, v in enumerate(r))
        if p_ not in out:
            out.append(p_)
    return out


def run(tier, seed):
    chk = core.Check("C20", tier, "exploration",
                     "column type lists of length 1-2 over 11 scalar types x boundary cell values (each value alone in a 1-row table and all together; NULL, '', delimiter/quote/newline/tab in strings, the text NULL, extreme numbers) "
                     f"x {len(OPTIONS)} CSV option sets x {{memory, disk}}; COPY TO then COPY FROM into an identical table (compared as printed and by value); plus COPY (SELECT .. WHERE ..) TO of a two-row-set table x 6 filters (removing the first / the last row-set / everything) x 4 option sets; a case = (types, rows, options, engine); non-trivial = table non-empty", seed)
    ts = tables(tier)
    scripts, meta, files, nprobes = [], [], [], []
    n = 0
    for engine in ("mem", "disk"):
        for types, rows in ts:
            for oname, opt in OPTIONS.items():
                if tier == "quick" and engine == "disk" and oname not in ("default", "pipe"):
                    continue
                n += 1
                f = os.path.join(SCRATCH, f"rlv-c20-{os.getpid()}-{n}.csv")
                files.append(f)
                cols = ", ".join(f"c{i} {t}" for i, t in enumerate(types))
                ins = "insert into t values " + ", ".join("(" + ", ".join(r) + ")" for r in rows)
                steps = [{"sql": f"create table t({cols})"}, {"sql": f"create table u({cols})"}, {"sql": ins},
                         {"sql": f"copy t to '{f}'{opt}"}, {"sql": f"copy u from '{f}'{opt}"},
                         {"sql": "select * from t"}, {"sql": "select * from u"}]
                # value probes: the rows of both tables are also compared by value (`=` against the inserted literals), not
                # only through their printed form (a value whose text form loses information prints the same on both sides)
                ps = probes(rows)
                for p_ in ps:
                    steps += [{"sql": f"select count(*) from t where {p_}"}, {"sql": f"select count(*) from u where {p_}"}]
                scripts.append({"id": 0, "engine": engine, "opts": {"block": 16384, "rowset": 1 << 20}, "steps": steps})
                meta.append({"engine": engine, "types": types, "rows": rows if len(rows) < 40 else f"{len(rows)} rows", "options": oname})
                nprobes.append(ps)
    try:
        res = runner.run_many("sql", scripts, timeout=300, progress=500)
    finally:
        for f in files:
            try:
                os.remove(f)
            except OSError:
                pass
    for case, r, ps in zip(meta, res, nprobes):
        cid = core.case_id(case)
        tag = "+".join(t.split("(")[0] for t in case["types"])
        if r.get("abort"):
            chk.fail(cid, "abort@" + tag, case, r)
            continue
        rs = r["results"]
        if any(U.status(x) != "rows" for x in rs[:3]):
            chk.skip("setup rejected: " + U.status([x for x in rs[:3] if U.status(x) != "rows"][0]))
            continue
        exp, imp, a, b = rs[3], rs[4], rs[5], rs[6]
        has_null = any(v == "null" for row in (case["rows"] if isinstance(case["rows"], list) else []) for v in row)
        has_empty = any(v == "''" for row in (case["rows"] if isinstance(case["rows"], list) else []) for v in row)
        feat = (("null" if has_null else "") + ("empty" if has_empty else "") or "plain") + (":header" if "header" in case["options"] else "")
        tag = "str" if "varchar" in tag else "nonstr"
        if U.status(exp) != "rows":
            chk.fail(cid, f"export-fails:{U.status(exp).split(':')[0]}@{tag}", case, exp)
            continue
        esc = ":escape-option" if case["options"].startswith("escape") else ""
        if U.status(imp) != "rows":
            chk.fail(cid, f"import-fails@{tag}{esc}", case, imp)
            continue
        if not (U.is_rows(a) and U.is_rows(b)):
            chk.fail(cid, f"select-fails@{tag}", case, {"t": a, "u": b})
            continue
        if U.mset(rows_by_value(a)) != U.mset(rows_by_value(b)):
            ma, mb = U.mset(rows_by_value(a)), U.mset(rows_by_value(b))
            lost, extra = ma - mb, mb - ma
            # classify every exported row that did not come back: the signature names the kinds of damage, so that a new kind
            # of damage in a table that already has a known one is a different (unknown) signature
            kinds = set()
            extra_left = list(extra.elements())
            for row in lost.elements():
                as_null = tuple(None if v == "" else v for v in row)
                if as_null != row and as_null in extra_left:
                    extra_left.remove(as_null)
                    kinds.add("empty-string-imported-as-null")
                else:
                    kinds.add("cell-changed-or-row-lost")
            if extra_left:
                kinds.add("unexpected-rows")
            chk.fail(cid, f"rows-differ@{tag}{esc}:" + "+".join(sorted(kinds)), case,
                     {"lost": [list(r) for r in list(lost.elements())[:6]], "extra": [list(r) for r in list(extra.elements())[:6]], "n": (len(a["rows"]), len(b["rows"]))})
            continue
        bad = None
        compared = 0
        for i, p_ in enumerate(ps):
            pt, pu = rs[7 + 2 * i], rs[8 + 2 * i]
            if U.status(pt) != "rows" or U.decode(pt)[0][0] in (0, "0"):
                continue          # `=` is not defined for the type / the literal, or does not find the inserted row: no oracle
            compared += 1
            if U.status(pu) != "rows" or U.decode(pu) != U.decode(pt):
                bad = (p_, pt, pu)
                break
        if bad:
            chk.fail(cid, f"value-differs@{tag}{esc}", case, {"probe": bad[0], "exported_table": bad[1], "imported_table": bad[2]})
            continue
        chk.ok(cid, nontrivial=len(a["rows"]) > 0, outcome=f"rows={min(len(a['rows']), 9)},probes={min(compared, 3)}", sample={"case": case})
    # ---- export of a query result (COPY (SELECT ..) TO ..): the source has two row-sets / chunks, and the filter may remove all
    # rows of the first one, of the last one, or every row (operators may hand empty chunks to the writer)
    qscripts, qmeta, qfiles = [], [], []
    for engine in ("mem", "disk"):
        for tys, rows1, rows2 in [(["int", "varchar"], [["1", "'a'"], ["2", "'b'"], ["3", "'c'"]], [["4", "'d'"], ["5", "'e'"], ["6", "'f'"]]),
                                  (["varchar", "varchar"], [["'1'", "'a'"], ["'2'", "'b'"]], [["'4'", "'d'"], ["'5'", "'e'"]])]:
            for filt in [None, "c0 > 3", "c0 < 4", "c0 > 100", "c0 = 5 or c0 = 1", "c1 = 'e'"]:
                if filt and tys[0] == "varchar":
                    filt = filt.replace("c0 > 3", "c0 > '3'").replace("c0 < 4", "c0 < '4'").replace("c0 > 100", "c0 > '9'").replace("c0 = 5 or c0 = 1", "c0 = '5' or c0 = '1'")
                for oname in ("default", "header", "tab+header", "pipe"):
                    n += 1
                    f = os.path.join(SCRATCH, f"rlv-c20-{os.getpid()}-q{n}.csv")
                    qfiles.append(f)
                    cols = ", ".join(f"c{i} {t}" for i, t in enumerate(tys))
                    query = "select * from t" + (f" where {filt}" if filt else "")
                    steps = [{"sql": f"create table t({cols})"}, {"sql": f"create table u({cols})"},
                             {"sql": "insert into t values " + ", ".join("(" + ", ".join(r) + ")" for r in rows1)},
                             {"sql": "insert into t values " + ", ".join("(" + ", ".join(r) + ")" for r in rows2)},
                             {"sql": f"copy ({query}) to '{f}'{OPTIONS[oname]}"}, {"sql": f"copy u from '{f}'{OPTIONS[oname]}"},
                             {"sql": query}, {"sql": "select * from u"}]
                    qscripts.append({"id": 0, "engine": engine, "opts": {"block": 16384, "rowset": 1 << 20}, "steps": steps})
                    qmeta.append({"engine": engine, "types": tys, "query": query, "options": oname})
    try:
        qres = runner.run_many("sql", qscripts, timeout=300)
    finally:
        for f in qfiles:
            try:
                os.remove(f)
            except OSError:
                pass
    for case, r in zip(qmeta, qres):
        cid = core.case_id(case)
        if r.get("abort"):
            chk.fail(cid, "abort@query-export", case, r)
            continue
        rs = r["results"]
        if any(U.status(x) != "rows" for x in rs[:4]):
            chk.machinery(f"query export setup failed: {json.dumps(rs[:4])[:300]}")
            continue
        if U.status(rs[4]) != "rows":
            chk.fail(cid, "export-fails@query-export", case, rs[4])
        elif U.status(rs[5]) != "rows":
            chk.fail(cid, "import-fails@query-export", case, rs[5])
        elif not (U.is_rows(rs[6]) and U.is_rows(rs[7])):
            chk.fail(cid, "select-fails@query-export", case, {"query": rs[6], "u": rs[7]})
        elif U.mset(rows_by_value(rs[6])) != U.mset(rows_by_value(rs[7])):
            chk.fail(cid, "rows-differ@query-export", case, {"exported": rs[6]["rows"][:8], "imported": rs[7]["rows"][:8]})
        else:
            chk.ok(cid, nontrivial=True, outcome=f"query-export:rows={min(len(rs[6]['rows']), 9)}", sample={"case": case})
    chk.assumptions += ["the CSV file is written and read with the same option list"]
    return chk


def replay(path):
    d = json.load(open(path))
    c = d["case"]
    f = os.path.join(SCRATCH, f"rlv-c20-replay-{os.getpid()}.csv")
    cols = ", ".join(f"c{i} {t}" for i, t in enumerate(c["types"]))
    rows = c["rows"] if isinstance(c["rows"], list) else [[str(i), f"'v{i % 7}'" if i % 5 else "null"] for i in range(1030)]
    ins = "insert into t values " + ", ".join("(" + ", ".join(r) + ")" for r in rows)
    opt = OPTIONS[c["options"]]
    steps = [{"sql": f"create table t({cols})"}, {"sql": f"create table u({cols})"}, {"sql": ins}, {"sql": f"copy t to '{f}'{opt}"}, {"sql": f"copy u from '{f}'{opt}"}, {"sql": "select * from t"}, {"sql": "select * from u"}]
    print(json.dumps(runner.run_many("sql", [{"id": 0, "engine": c["engine"], "steps": steps}])[0])[:3000])
    if os.path.exists(f):
        print(open(f).read()[:500])
        os.remove(f)
    return 0
