"""C04 — a crash at any instant leaves a recoverable, atomic, durable database.
Fault enumeration on the real write path: each history is run once with the crash-point recorder armed; then the
database is recovered from EVERY crash state (every persistence step x every byte prefix of the write in flight;
manifest records torn at every byte), compared with model(acked) / model(acked + interrupted operation), exercised
with a post-recovery script, reopened again, and crash points of the recovery itself are enumerated one level deep."""
import json
from lib import core, runner, sqlutil as U

OPS = {
    "CT": {"sql": "create table t(k int primary key, v int)"},
    "I1": {"sql": "insert into t values (1,10),(2,20)"},
    "I2": {"sql": "insert into t values (3,30),(2,21)"},
    "I3": {"sql": "insert into t values (10,1),(11,1),(12,1),(13,1),(14,1),(15,1)"},      # a six-row row-set: its delete vector is longer than a one-row one
    "D": {"sql": "delete from t where k = 2"},
    "DA": {"sql": "delete from t"},            # every row: a later compaction produces no row-set, only DeleteDV/DeleteRowSet records
    "DT": {"sql": "drop table t"},
    "C": {"op": "compact"},
    "R": {"op": "reopen"},
}
# (the deletes of the post script hit single rows of row-sets whose interrupted delete vector, if any, covered more rows)
# (ONE delete statement: a delete that matches nothing would still consume a delete-vector id and hide id re-use)
POST = ["insert into t values (90,90)", "delete from t where k = 1 or k = 11"]
# second post-recovery script, without the insert: a second row-set would be merged with the first by the compaction that runs
# before the shutdown, and the delete vector written after recovery would never be read back from its file
POST_B = ["delete from t where k = 1 or k = 11"]


def model(ops):
    """None = table absent, else list of rows"""
    st = None
    for o in ops:
        if o == "CT":
            st = [] if st is None else st
        elif o == "DT":
            st = None
        elif st is not None:
            if o == "I1":
                st = st + [(1, 10), (2, 20)]
            elif o == "I2":
                st = st + [(3, 30), (2, 21)]
            elif o == "I3":
                st = st + [(k, 1) for k in range(10, 16)]
            elif o == "D":
                st = [r for r in st if r[0] != 2]
            elif o == "DA":
                st = []
    return st


def valid(h):
    st = None
    for o in h:
        if o == "CT" and st is not None:
            return False
        if o in ("I1", "I2", "I3", "D", "DA", "DT") and st is None:
            return False
        if o == "CT":
            st = []
        if o == "DT":
            st = None
    return True


def histories(tier):
    import itertools
    out = []
    if tier == "quick":
        prefixes = [["CT"], ["CT", "I1"], ["CT", "I1", "I2"], ["CT", "I1", "D"]]
        tails = [[t] for t in ["I1", "I2", "D", "DT", "C", "R"]]
        for t in itertools.product(["I2", "D", "DT", "C", "R"], repeat=2):
            if valid(["CT", "I1"] + list(t)):
                out.append(["CT", "I1"] + list(t))
        # two fully deleted row-sets, compacted away, then reopened and written again (row-set ids are re-issued)
        churn = ["CT", "I1", "I2", "D", "DA"]        # (two delete vectors per row-set)
        out += [churn + t for t in (["C"], ["C", "R"], ["C", "I1"], ["C", "R", "R", "I1"], ["R", "C"], ["DT"])]
        # an interrupted delete of many rows followed (after recovery) by a delete of one row of the same row-set
        out += [["CT", "I3", "DA"], ["CT", "I1", "I3", "DA"], ["CT", "I3", "D", "DA"], ["CT", "I3", "I1", "DA", "C"]]
    else:
        prefixes = [[], ["CT", "I1"], ["CT", "I1", "I2", "D"], ["CT", "I1", "I2", "C"], ["CT", "I1", "I2", "D", "DA"], ["CT", "I1", "I2", "D", "DA", "C", "R"]]
        tails = [list(t) for n in (1, 2, 3) for t in itertools.product(["CT", "I1", "I2", "D", "DA", "DT", "C", "R"], repeat=n)]
        prefixes += [["CT", "I3"], ["CT", "I1", "I3"]]
    seen = set()
    for p in prefixes:
        for t in tails:
            if len(p) > 2 and len(t) > 2:
                continue        # only the two shortest prefixes get tails of 3 operations
            h = p + t
            if valid(h) and tuple(h) not in seen:
                # drop histories whose tail is only no-ops on an absent table
                seen.add(tuple(h))
                out.append(h)
    return out


def rows(r):
    return sorted(U.decode(r)) if U.is_rows(r) else None


def judge_group(h, g, post_script=None):
    """returns None if fine, else (sig, detail)"""
    post_script = post_script or POST
    if "nested_mismatch" in g:
        return "crash-during-recovery-changes-state", g["nested_mismatch"]
    o = g["obs"]
    if o.get("open") != "ok":
        return "database-does-not-open", o.get("open")
    cands = [h[:g["acked"]]]
    if g["inflight"] is not None:
        cands.append(h[:g["inflight"] + 1])
    got = o["tables"]["t"]
    got_rows = rows(got)
    ok_state = None
    for c in cands:
        m = model(c)
        if m is None:
            if U.status(got) == "err:bind":
                ok_state = c
                break
        elif got_rows is not None and got_rows == sorted(m):
            ok_state = c
            break
    if ok_state is None:
        return "state-neither-before-nor-after", {"got": got, "allowed": [model(c) for c in cands]}
    if o.get("shutdown") != "ok":
        return "shutdown-after-recovery-fails", o.get("shutdown")
    m = model(ok_state)
    post, after, reopened = o.get("post"), o.get("after_post"), o.get("reopened")
    if m is None:
        if any(U.status(p) != "err:bind" for p in post):
            return "post-recovery-statement-on-absent-table", post
        return None
    for sql, p in zip(post_script, post):
        if U.status(p) != "rows":
            return "post-recovery-statement-fails", {"stmt": sql, "result": p}
    want = sorted([r for r in m + ([(90, 90)] if post_script is POST else []) if r[0] not in (1, 11)])
    if rows(after["t"]) != want:
        return "post-recovery-state-wrong", {"got": after["t"], "want": want}
    if not isinstance(reopened, dict) or "open_panic" in reopened:
        return "second-reopen-fails", reopened
    if rows(reopened["t"]) != want:
        return "state-lost-on-second-reopen", {"got": reopened["t"], "want": want}
    return None


def job(h, tier, idx, post=None):
    nested = "none"
    if (tier == "thorough" or idx % 8 == 0) and post is None:
        nested = "boundaries"
    return {"id": h, "opts": {"block": 64, "rowset": 1 << 20}, "ops": [OPS[o] for o in h], "tables": ["t"], "post": post or POST,
            "nested": nested, "prefix_step": 4 if tier == "quick" else 1, "nested_step": 16 if tier == "quick" else 4}


def run(tier, seed):
    hs = histories(tier)
    chk = core.Check("C04", tier, "fault_enumeration",
                     f"{len(hs)} histories over {{create, 2 inserts (second row-set, duplicate key), delete, drop, forced compaction, reopen}} from several start states; for each: every crash point "
                     "(dir create, column/index/DV file write+fsync, manifest append, manifest rewrite tmp/rename, boot and background vacuum unlink) x every byte prefix of manifest writes "
                     f"(data files every {4 if tier == 'quick' else 1} bytes); recovery + post script + second reopen; crash points of the recovery itself one level deep for "
                     f"{'all' if tier == 'thorough' else 'every 8th'} histories at write boundaries. a case = (history, crash state group); non-trivial = the write in flight is torn (neither empty nor complete)", seed)
    # histories with a delete are recovered under both post-recovery scripts
    # (quick: every history with a delete; thorough: those whose last or second-to-last operation is a delete)
    with_b = [h for h in hs if ("D" in h or "DA" in h)] if tier == "quick" else [h for h in hs if any(o in ("D", "DA") for o in h[-2:])]
    runs = [(h, POST) for h in hs] + [(h, POST_B) for h in with_b]
    jobs = [job(h, tier, i, None if ps is POST else ps) for i, (h, ps) in enumerate(runs)]
    res = runner.run_many("crash", jobs, timeout=3600, progress=20)
    tot_states = tot_nested = tot_points = tot_torn = 0
    for (h, ps), r in zip(runs, res):
        if r.get("abort"):
            chk.fail(core.case_id({"history": h}), "abort", {"history": h}, r)
            continue
        s = r["summary"]
        tot_states += s["crash_states"]
        tot_nested += s["nested_states"]
        tot_points += s["crash_points"]
        tot_torn += s.get("torn_states", 0)
        bad_ops = [x for x in s["op_results"] if U.status(x) not in ("rows", "ok")]
        if bad_ops:
            chk.machinery(f"history {h}: an operation failed in the recorded run: {bad_ops[0]}")
            continue
        for g in r["groups"]:
            v = judge_group(h, g, ps)
            case = {"history": h, "acked": g["acked"], "inflight": g["inflight"], "crash_states": g["examples"]}
            if ps is POST_B:
                case["post"] = "delete-only"
            cid = core.case_id({"history": h, "at": g["examples"][0], "post": "B"} if ps is POST_B else {"history": h, "at": g["examples"][0]})
            torn = any("+" in e and e.split("+")[-1].split("/")[0] not in ("0", e.split("/")[-1]) for e in g["examples"])
            chk.evaluations += g["count"] - 1      # every crash state of the group was recovered and judged
            if v:
                for _ in range(1):
                    chk.fail(cid, v[0], case, {"detail": v[1], "states_in_group": g["count"]}, outcome=v[0])
            else:
                chk.ok(cid, nontrivial=torn, outcome=f"recovered:{'after' if g['inflight'] is not None else 'idle'}", sample={"history": h, "crash_states": g["examples"][:2]})
    chk.nontrivial_override = tot_torn        # per crash state (the groups merge states with equal observations)
    chk.extra.update(histories=len(hs), crash_points=tot_points, crash_states=tot_states, torn_write_states=tot_torn, nested_crash_states=tot_nested)
    chk.assumptions += ["crash model of the property: persistence steps take effect in program order, the write in flight may be any prefix, fsynced data is durable; loss of directory entries is not modelled",
                        "crash points are the instrumented persistence steps (hooks in manifest.rs, version_manager.rs, storage.rs, transaction.rs, rowset_writer.rs)"]
    return chk


def replay(path):
    d = json.load(open(path))
    h = d["case"]["history"]
    r = runner.run_many("crash", [job(h, "thorough", 0)], timeout=3600)[0]
    for g in r["groups"]:
        v = judge_group(h, g)
        if v:
            print(json.dumps({"examples": g["examples"], "sig": v[0], "detail": v[1]})[:2000])
    return 0
