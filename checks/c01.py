"""C01 — query optimization never changes a query's answer.
(a) end-to-end: every query of the qgen corpus x every database x {memory, disk with several row-sets} x statistics
    assignments is executed with `PRAGMA disable_optimizer` and with `PRAGMA enable_optimizer`; results must agree
    (multiset; key sequence under ORDER BY). Queries whose unoptimised plan cannot run are 'not comparable'.
(b) per rewrite rule (E5, `rlv rules`): every rule of expr/and/always_better/predicate_pushdown/join_reorder/hash_join/order is
    applied alone to every well-typed, runnable instantiation of its left-hand side over typed atom menus; every member of
    the resulting root e-class is executed and must return the same rows as the left-hand side."""
import json
from lib import core, runner, sqlutil as U, qgen

STATS = {
    "real": [],
    "t1big": ["set mock_rowcount_t1 = 1000", "set mock_rowcount_t2 = 1", "set mock_rowcount_t3 = 10"],
    "t2big": ["set mock_rowcount_t1 = 1", "set mock_rowcount_t2 = 1000", "set mock_rowcount_t3 = 1"],
}
ENGINES = [("mem", None, False), ("disk", {"block": 64, "rowset": 1 << 20}, True)]
CHUNK = 120


def stat_names(tier):
    return ["real", "t1big"] if tier == "quick" else list(STATS)


def make_scripts(tier):
    qs = qgen.queries(tier)
    items = []
    for (dbname, schema, tables) in qgen.databases(tier):
        for (engine, layout, split) in ENGINES:
            for sname in stat_names(tier):
                setup = [{"sql": s} for s in qgen.setup_sql(schema, tables, split) + STATS[sname]]
                for off in range(0, len(qs), CHUNK):
                    chunk = qs[off:off + CHUNK]
                    steps = setup + [{"sql": "pragma disable_optimizer"}] + [{"sql": x["sql"]} for x in chunk] \
                        + [{"sql": "pragma enable_optimizer"}] + [{"sql": x["sql"]} for x in chunk]
                    meta = {"db": dbname, "engine": engine, "layout": layout, "stats": sname}
                    items.append(({"id": 0, "engine": engine, "opts": layout or {}, "steps": steps}, meta, len(setup), chunk))
    return items


def compare(a, b, okeys, seq=False):
    """a = unoptimised, b = optimised; returns None if equal else signature."""
    ra, rb = U.decode(a), U.decode(b)
    if U.mset(ra) != U.mset(rb):
        return "rows-differ"
    if seq and ra != rb:
        return "order-differs"
    if okeys:
        ka = [tuple(r[i] for i, _ in okeys) for r in ra]
        kb = [tuple(r[i] for i, _ in okeys) for r in rb]
        if ka != kb:
            return "order-differs"
    return None


def run(tier, seed):
    chk = core.Check("C01", tier, "exploration",
                     "qgen corpus (single-table projections/filters/distinct/order/limit/aggregates, 2- and 3-table inner/left/right/full joins, "
                     "IN/EXISTS/scalar subqueries, derived tables) x all databases (2 schemas x table contents with NULLs, duplicates, empty tables) x "
                     "{memory, disk with several row-sets} x statistics assignments; optimizer off vs on; a case = (db, engine, stats, sql); "
                     "non-trivial = both runs returned rows and the result is non-empty", seed)
    items = make_scripts(tier)
    res = runner.run_many("sql", [it[0] for it in items], timeout=300, progress=200)
    for (script, meta, nsetup, chunk), r in zip(items, res):
        if r.get("abort"):
            chk.fail(core.case_id(dict(meta, sql="<chunk>", first=chunk[0]["sql"])), "abort", meta, r)
            continue
        rs = r["results"]
        bad = [x for x in rs[:nsetup] if U.status(x) not in ("rows", "ok")]
        if bad:
            chk.fail(core.case_id(dict(meta, sql="<setup>")), "setup:" + U.status(bad[0]), meta, bad[0])
            continue
        n = len(chunk)
        offs = rs[nsetup + 1:nsetup + 1 + n]
        ons = rs[nsetup + 2 + n:nsetup + 2 + 2 * n]
        for x, a, b in zip(chunk, offs, ons):
            c = dict(meta, sql=x["sql"])
            cid = core.case_id(c)
            sa, sb = U.status(a), U.status(b)
            if sa != "rows":
                # the unoptimised plan cannot run (unsupported operator / binder rejection): nothing to compare
                chk.skip("unoptimised:" + sa)
                if sa.startswith("err:bind") or sa.startswith("err:parse"):
                    continue
                # C01 does not demand that the optimised plan runs; C17/C02 do.
                continue
            if sb != "rows":
                chk.fail(cid, "optimised-fails:" + sb.split(":")[0] + "@" + x["feat"][0], c, {"unoptimised": a, "optimised": b})
                continue
            sig = compare(a, b, x["okeys"], qgen.seq_applies(x, meta["db"])) if qgen.determined(x, meta["db"]) else (None if len(a["rows"]) == len(b["rows"]) else "rows-differ")
            if sig:
                chk.fail(cid, sig + "@" + x["feat"][0], c, {"unoptimised": a["rows"], "optimised": b["rows"]})
            else:
                chk.ok(cid, nontrivial=len(a["rows"]) > 0, outcome=f"rows={min(len(a['rows']), 5)}",
                       sample={"case": c, "rows": a["rows"][:3]})
    # ---- (b) per rewrite rule (E5)
    rule_summary = {}
    fails = []

    def on_line(d):
        if "fail" in d:
            fails.append(d)
        elif "summary" in d:
            rule_summary.update(d["summary"])
        elif "machinery" in d:
            chk.machinery("rules: " + json.dumps(d)[:300])
    _lines, rcs = runner.run_shards("rules", [], nshards=16, on_line=on_line)
    for i, (rc, err) in enumerate(rcs):
        if rc != 0:
            chk.machinery(f"rules shard {i} exited {rc}: {err[-200:]}")
    members = 0
    for name, sm in rule_summary.items():
        if "skipped" in sm:
            chk.skip("rule not instantiable: " + name)
            continue
        members += sm["members_executed"]
    for d in fails:
        c = {"rule": d["fail"], "lhs": d["lhs"], "rhs": d["rhs"]}
        chk.fail(core.case_id(c), "rule-unsound:" + d["fail"], c, d.get("detail", ""), outcome="rule-unsound")
    # every executed e-class member that agreed is one passing evaluation
    agree = members - len(fails)
    chk.evaluations += agree
    chk.outcomes["rule-member-agrees"] = agree
    chk.extra.update(rules_checked=len([1 for v in rule_summary.values() if "skipped" not in v]), rules_skipped=sorted(k for k, v in rule_summary.items() if "skipped" in v),
                     rule_instantiations=sum(v.get("instantiations", 0) for v in rule_summary.values()), rule_members_executed=members,
                     rules_never_fired=sorted(k for k, v in rule_summary.items() if "skipped" not in v and v["rule_fired"] == 0))
    chk.assumptions += ["the unoptimised plan (PRAGMA disable_optimizer) is the reference semantics of the query",
                        "per-rule part: pattern variables are instantiated from typed atom menus chosen by variable name; instantiations the type checker rejects or the executor cannot run are not comparable; e-class member enumeration is capped at 40 terms / depth 8 per instantiation; projection-pushdown, subquery and index-scan rules are exercised end-to-end only",
                        "statistics: real (disk) / none (memory) or mocked row counts via SET mock_rowcount_<t>"]
    chk.extra.update(queries=len(qgen.queries(tier)), databases=len(qgen.databases(tier)))
    return chk


def replay(path):
    d = json.load(open(path))
    c = d["case"]
    for (dbname, schema, tables) in qgen.databases("thorough"):
        if dbname == c["db"]:
            split = c["engine"] == "disk"
            steps = [{"sql": s} for s in qgen.setup_sql(schema, tables, split) + STATS[c["stats"]]]
            steps += [{"sql": "pragma disable_optimizer"}, {"sql": c["sql"]}, {"sql": "explain " + c["sql"]}, {"sql": "pragma enable_optimizer"}, {"sql": c["sql"]}, {"sql": "explain " + c["sql"]}]
            out = runner.run_many("sql", [{"id": 0, "engine": c["engine"], "opts": c["layout"] or {}, "steps": steps}])[0]
            for x in out["results"][-6:]:
                print(json.dumps(x)[:3000])
            return 0
    return 2
