"""C12 — ORDER BY / LIMIT / OFFSET are honoured on every storage layout.
Exhaustive enumeration: every population history (<= d ops over {3 insert batches, 2 deletes, compact})
x table kind (pk / no pk) x engine/layout x every ORDER BY key list x every LIMIT/OFFSET pair of a small
domain; oracle = the relations the property states (permutation, sortedness, slice, count, membership)."""
import itertools
from lib import core, runner, sqlutil as U

B = {
    "I1": [(2, 10), (4, None), (6, 10)],
    "I2": [(1, 20), (5, 10), (9, None)],
    "I3": [(3, None), (4, 30), (0, 10)],
}
DELS = {"D1": "delete from t where k = 4", "D2": "delete from t where v is null"}
ORDERS = {
    "k": [(0, False)], "k desc": [(0, True)], "v": [(1, False)],
    "v, k": [(1, False), (0, False)], "v desc, k": [(1, True), (0, False)],
}
LIMS = [None, 0, 1, 2, 5]


def queries():
    qs = [("base", None, None, None, "select k, v from t")]
    for okey in [None] + list(ORDERS):
        for n in LIMS:
            for m in LIMS:
                if okey is None and n is None and m is None:
                    continue
                q = "select k, v from t"
                if okey:
                    q += f" order by {okey}"
                if n is not None:
                    q += f" limit {n}"
                if m is not None:
                    q += f" offset {m}"
                qs.append(("q", okey, n, m, q))
    # an ordered derived table re-sorted by a key that is not a prefix of its own order (the inner order must not be taken
    # for the outer one); judged like the plain query with the outer ORDER BY / LIMIT / OFFSET
    for inner in ("v, k", "v desc, k desc"):
        qs.append(("q", "k", None, None, f"select * from (select k, v from t order by {inner}) s order by k"))
        qs.append(("q", "k desc", None, None, f"select * from (select k, v from t order by {inner}) s order by k desc"))
        qs.append(("q", "k", 2, 1, f"select * from (select k, v from t order by {inner}) s order by k limit 2 offset 1"))
        qs.append(("q", "k", None, 2, f"select * from (select k, v from t order by {inner}) s order by k offset 2"))
    # ORDER BY a key that is not selected (the optimizer drops the sort of a key-ordered scan, and the scan is then asked
    # for `v` only): the output sequence is determined when the keys are unique
    for okey in ("k", "k desc"):
        for n, m in [(None, None), (2, None), (None, 1), (2, 1), (5, 2)]:
            q = f"select v from t order by {okey}" + (f" limit {n}" if n is not None else "") + (f" offset {m}" if m is not None else "")
            qs.append(("u", okey, n, m, q))
    return qs


def configs(tier):
    cfgs = [("mem", None)] + [("disk", l) for l in U.LAYOUTS_QUICK]
    if tier == "thorough":
        cfgs += [("disk", l) for l in U.LAYOUTS_MORE]
    return cfgs


def scripts(tier):
    depth = 3 if tier == "quick" else 4
    ops = list(B) + list(DELS) + ["C"]
    qs = queries()
    # pk = "second": the key is the table's second column (the scan's column positions differ from the table's)
    for pk in (True, False, "second"):
        for engine, layout in configs(tier):
            if pk == "second" and engine == "mem":
                continue
            for h in U.seqs(ops, depth, 1):
                if h[0] in DELS or h[0] == "C":
                    continue          # first op on an empty table: covered by the insert-first histories' prefixes being non-empty
                if engine == "mem" and "C" in h:
                    continue          # no compactor in the memory engine
                steps = [{"sql": "create table t(v int, k int primary key)" if pk == "second" else f"create table t(k int{' primary key' if pk else ''}, v int)"}]
                for o in h:
                    if o in B:
                        steps.append({"sql": U.insert_sql("t(k, v)" if pk == "second" else "t", B[o])})
                    elif o in DELS:
                        steps.append({"sql": DELS[o]})
                    else:
                        steps.append({"op": "compact"})
                nsetup = len(steps)
                steps += [{"sql": q[4]} for q in qs]
                case = {"pk": pk, "engine": engine, "layout": layout, "history": list(h)}
                yield {"id": case, "engine": engine, "opts": layout or {}, "steps": steps}, nsetup


def judge(chk, case, qs, results):
    base_r = results[0]
    base_case = dict(case, query=qs[0][4])
    if not U.is_rows(base_r):
        chk.fail(core.case_id(base_case), "base:" + U.status(base_r), base_case, base_r)
        return
    base = U.decode(base_r)
    base_ms = U.mset(base)
    N = len(base)
    chk.ok(core.case_id(base_case), nontrivial=N > 0, outcome=f"N={N}")
    for (kind, okey, n, m, q), r in zip(qs[1:], results[1:]):
        c = dict(case, query=q)
        cid = core.case_id(c)
        if not U.is_rows(r):
            chk.fail(cid, U.status(r), c, r)
            continue
        rows = U.decode(r)
        if kind == "u":
            full = U.sort_rows(base, ORDERS[okey])
            mm = m or 0
            want = full[mm:] if n is None else full[mm:mm + n]
            unique = len({r[0] for r in base}) == N
            if len(rows) != len(want):
                chk.fail(cid, "wrong-count", c, {"got": rows, "want_count": len(want), "table": base})
            elif unique and [r[0] for r in rows] != [r[1] for r in want]:
                chk.fail(cid, "wrong-slice", c, {"got": rows, "want": [r[1] for r in want], "table": base})
            elif U.mset(rows) - U.mset([(r[1],) for r in base]):
                chk.fail(cid, "rows-not-in-table", c, {"got": rows, "table": base})
            else:
                chk.ok(cid, nontrivial=N > 1 and unique, outcome=f"unselected-key:{len(rows)}", sample={"case": c, "rows": rows[:4]})
            continue
        ms = U.mset(rows)
        if ms - base_ms:
            chk.fail(cid, "rows-not-in-table", c, {"got": rows, "table": base})
            continue
        mm = m or 0
        want_n = max(0, N - mm) if n is None else min(n, max(0, N - mm))
        if len(rows) != want_n:
            chk.fail(cid, "wrong-count", c, {"got": rows, "want_count": want_n, "table": base})
            continue
        if okey:
            keys = ORDERS[okey]
            if not U.is_sorted(rows, keys):
                chk.fail(cid, "unsorted", c, {"got": rows, "order": okey})
                continue
            full = U.sort_rows(base, keys)
            want = full[mm:] if n is None else full[mm:mm + n]
            proj = lambda rs: [tuple(r[ci] for ci, _ in keys) for r in rs]
            if proj(rows) != proj(want):
                chk.fail(cid, "wrong-slice", c, {"got": rows, "want_keys": proj(want)})
                continue
            if n is None and m is None and ms != base_ms:
                chk.fail(cid, "not-permutation", c, {"got": rows, "table": base})
                continue
        chk.ok(cid, nontrivial=N > 1, outcome=f"{'ord' if okey else 'unord'}:{len(rows)}",
               sample={"case": c, "rows": rows[:4]})


def run(tier, seed):
    chk = core.Check("C12", tier, "model_checking",
                     "every population history (ops: 3 overlapping insert batches, 2 predicate deletes, forced compaction; "
                     "depth<=%d) x {pk, no pk, pk as second column (disk)} x {memory, disk layouts} x {5 ORDER BY key lists, none} x LIMIT,OFFSET in {absent,0,1,2,5}^2, plus ORDER BY k / k desc with only v selected x 5 LIMIT/OFFSET pairs, plus an ordered derived table re-sorted by another key (8 forms); "
                     "a case = (table kind, engine/layout, history, query); non-trivial = table has >1 row" % (3 if tier == 'quick' else 4), seed)
    qs = queries()
    items = list(scripts(tier))
    res = runner.run_many("sql", [s for s, _ in items], timeout=120, progress=500)
    states = set()
    transitions = 0
    for (s, nsetup), r in zip(items, res):
        case = s["id"]
        if r.get("abort"):
            chk.fail(core.case_id(case), "abort", case, r)
            continue
        results = r["results"]
        setup = results[:nsetup]
        bad = [x for x in setup if U.status(x) not in ("rows", "ok")]
        transitions += nsetup + len(qs)
        if bad:
            chk.fail(core.case_id(dict(case, query="<setup>")), "setup:" + U.status(bad[0]), case, bad[0])
            continue
        judge(chk, case, qs, results[nsetup:])
        if U.is_rows(results[nsetup]):
            states.add((case["pk"], case["engine"], core.canon(case["layout"]), tuple(sorted(map(str, U.decode(results[nsetup]))))))
    chk.extra.update(states=len(states), transitions=transitions, traces_validated_against_impl=len(items),
                     histories=len(items), queries_per_history=len(qs))
    chk.assumptions += ["NULL sorts smallest (first under ASC, last under DESC), the order risinglight documents for DataValue",
                        "forced compaction = one pass of the real background compactor driven by the paused tokio clock"]
    return chk


def replay(path):
    import json
    d = json.load(open(path))
    case = d["case"]
    for (s, nsetup) in scripts("thorough"):
        if s["id"] == {k: case[k] for k in ("pk", "engine", "layout", "history")}:
            s["steps"] = s["steps"][:nsetup] + [{"sql": "select k, v from t"}, {"sql": case["query"]}]
            print(json.dumps(runner.run_many("sql", [s])[0], indent=1))
            return 0
    print("case not found in the enumeration")
    return 2
