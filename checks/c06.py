"""C06 — column encodings round-trip every value exactly.
Exhaustive enumeration on the one-column hook (real builders, real block/column iterators): 11 types x nullable x
{plain, rle, dict} x block sizes x every array of length 1..L over a 3-value domain (+NULL) plus six fixed long patterns
(runs crossing blocks, alternations, all-NULL prefixes, values longer than a block, 300 rows) x every start row x every
read script of <= K actions from {next(None), next(1), next(2), next(7), skip(1), skip(2), skip(5)} followed by a drain.
Oracle: slice arithmetic on the written sequence (row ids exact, batch == a[row_id..], nothing lost, nothing past the end)."""
import json, threading
from lib import core, runner


def run(tier, seed):
    chk = core.Check("C06", tier, "exploration",
                     "types {int16,int32,int64,float64,bool,decimal,date,timestamp,interval,varchar,blob} x nullable x {plain,rle,dict} x block sizes x all arrays of length 1.."
                     + ("4" if tier == "quick" else "6") + " over a 3-value domain (+NULL) + 6 fixed long patterns x every start row x every read script of <= "
                     + ("2" if tier == "quick" else "3") + " actions + drain; a case = (type, nullable, encode, block size, array, start, script); non-trivial = every case (arrays are non-empty)", seed)
    nshards = 66
    fails = []
    summaries = []
    lock = threading.Lock()

    def on_line(d):
        with lock:
            if "fail" in d:
                fails.append(d)
            elif "summary" in d:
                summaries.append(d["summary"])
    lines, rcs = runner.run_shards("col", ["--tier", tier], nshards=nshards, on_line=on_line)
    for i, (rc, err) in enumerate(rcs):
        if rc != 0:
            chk.machinery(f"col shard {i} exited {rc}: {err[-200:]}")
    total = sum(s["cases"] for s in summaries)
    nfail = 0
    for d in fails:
        c = d["case"]
        cid = core.case_id(c)
        chk.failures.append((cid, d["fail"], c, d.get("detail", "(detail printed for the first cases of this signature only)")))
        chk.nontrivial.add(cid)
        chk.outcomes[d["fail"].split("@")[0]] = chk.outcomes.get(d["fail"].split("@")[0], 0) + 1
        nfail += 1
    passed = total - nfail
    chk.evaluations = total
    chk.outcomes["round-trips"] = passed
    # distinct non-trivial: every enumerated case is distinct by construction (the engine walks a cartesian product once)
    chk.extra.update(distinct_nontrivial_counted_by_engine=total, per_combo={k: v for s in summaries for k, v in s["per_combo"].items()})
    chk.nontrivial_override = total
    chk.samples = [{"combo": "int32:nullable:rle", "block": 64, "array": [1, 1, 0, 3], "start": 1, "script": ["skip(1)", "next(2)"]}]
    chk.assumptions += ["columns are built through ColumnBuilderImpl (two appends per array) and read through ColumnIteratorImpl on an in-memory file; row-set level composition is covered by C07/C12/C13",
                        "empty columns are excluded (never written); skips never go past the end of the column"]
    return chk


def replay(path):
    d = json.load(open(path))
    print(json.dumps(d)[:2000])
    print("re-run: ./target/debug/rlv col --tier thorough --shard i/66 and grep the case")
    return 0
