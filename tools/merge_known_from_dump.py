#!/usr/bin/env python3
"""Developer tool: merge the failing cases of a dump (RLV_DUMP_FAILS of a run on the UNCHANGED, clean tree) into
known/<prop>.<signature>.txt.  usage: merge_known_from_dump.py <prop> <dump.jsonl>"""
import json, os, re, sys
VERIF = os.path.dirname(os.path.dirname(os.path.abspath(__file__)))


def slug(s):
    return re.sub(r"[^A-Za-z0-9_.-]+", "_", s)[:80]


prop, dump = sys.argv[1], sys.argv[2]
by = {}
for l in open(dump):
    d = json.loads(l)
    by.setdefault(d["sig"], set()).add(f"{d['cid']}:{d['sig']}")
for sig, keys in by.items():
    import gzip
    path = os.path.join(VERIF, "known", f"{prop}.{slug(sig)}.txt")
    old = set()
    for o in (path, path + ".gz"):
        if os.path.exists(o):
            op = (lambda p: gzip.open(p, "rt")) if o.endswith(".gz") else open
            old |= {x.strip() for x in op(o) if x.strip() and not x.startswith("#")}
            os.remove(o)
    allk = old | keys
    big = len(allk) > 20000
    if big:
        path += ".gz"
    with (gzip.open(path, "wt") if big else open(path, "w")) as f:
        f.write(f"# failing cases of {prop} with signature {sig} on the recorded tree (case-id:signature)\n")
        for k in sorted(allk):
            f.write(k + "\n")
    print(f"{path}: {len(old)} -> {len(allk)}")
