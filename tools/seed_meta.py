#!/usr/bin/env python3
"""Write /verif/seeded/<id>/meta.json for every confirmed seeded change (facts recorded by hand from the sub-agent reports
and from the confirmation / detection runs: seeded/<id>/confirm.log, detect_<prop>.log)."""
import json, os, re
VERIF = os.path.dirname(os.path.dirname(os.path.abspath(__file__)))
SEEDS = {
    "C01": ("C01", "src/executor/merge_join.rs: `is_none_or` -> `is_some_and` in the left-join arm of MergeJoinExecutor (rebased onto the NULL-key fix: patch.orig.diff is the agent's original)",
            "an equi LEFT/FULL join planned as a merge join (both inputs ordered on the key: ORDER BY subqueries, or pk-pk joins on disk) whose right input is exhausted while left groups remain", ["C01", "C02"]),
    "C02": ("C02", "src/executor/nested_loop_join.rs: `right_row_num += ..` -> `right_row_num = ..`",
            "a LEFT OUTER nested-loop join (non-equi ON) whose right input arrives in >= 2 chunks and a left row that matches only late right rows", ["C02", "C01"]),
    "C03": ("C03", "src/storage/secondary/storage.rs bootstrap: rowset id counter `fetch_max(id+1)` -> `store(id+1)`",
            "two live row-sets of different tables, two reopens without an insert in between (the rewritten manifest lists row-sets in hash order), then an insert that re-uses a live row-set id", ["C03"]),
    "C04": ("C04", "src/storage/secondary/storage.rs bootstrap: DV id counter `fetch_max(dv_id + 1)` -> `fetch_max(dv_id)`",
            "a DELETE acknowledged before a crash/reopen, then another DELETE on the same table after recovery (re-issued DV id: AlreadyExists, or the wrong delete vector applied)", ["C04", "C07"]),
    "C05": ("C05", "src/storage/secondary/rowset/rowset_iterator.rs: early termination `end_row_id == 0` -> `start_row_id >= end_row_id`",
            "disk engine, pk range pushed into the scan, key column spanning several blocks, a lower bound that selects nothing from the block the seek lands on", ["C05", "C13"]),
    "C06": ("C06", "src/storage/secondary/column/concrete_column_iterator.rs skip_inner: per-block row_count lookup dropped from the loop",
            "a skip issued while an earlier skip has already moved past a block that is not loaded yet, on a column whose blocks hold different numbers of rows (varchar/blob)", ["C06"]),
    "C07": ("C07", "src/storage/secondary/merge_iterator.rs replace_pending_data: swapped arguments of compare_in_heap (sift-down picks the larger child)",
            "a primary-key table with >= 3 row-sets whose key ranges interleave (ordered scan or compaction merges them out of order)", ["C07", "C12"]),
    "C08": ("C08", "src/storage/secondary/version_manager.rs: rowset_deletion_to_apply keyed by `current_epoch` instead of the new `epoch`",
            "a reader pinned at epoch P, a compaction committing P+1, and a later unpin that wakes the vacuum while the reader is still pinned", ["C08"]),
    "C09": ("C09", "src/storage/secondary/compactor.rs run: `if let Some(_guard) = try_lock && ..` un-nested, a failed try_lock no longer skips the table (rebased onto the per-table pin fix)",
            "a DELETE in flight on a table (lock held, rows located, not yet committed) when the compactor reaches that table with >= 2 row-sets", ["C09"]),
    "C10": ("C10", "src/storage/secondary/manifest.rs create_table_inner: the schema copy used for the existence re-check is taken before waiting for the DDL lock",
            "two sessions creating the same table; the second takes its (cloned) schema while the first still holds the lock; the duplicate CreateTable record makes the database unopenable", ["C10"]),
    "C11": ("C11", "src/executor/merge_join.rs: guard `lkey <= rkey` -> `lkey < rkey` in the left-unmatched arm",
            "a merge join whose two inputs both contain a NULL join key (no arm matches, the loop exits early: zero rows)", ["C11", "C01", "C02"]),
    "C12": ("C12", "src/executor/limit.rs: `processed += cardinality` moved after the skip check",
            "LIMIT/OFFSET planned as Limit (not TopN) over a scan yielding >= 2 chunks with OFFSET >= size of the first chunk", ["C12"]),
    "C13": ("C13", "src/storage/secondary/rowset/rowset_iterator.rs: early termination `end_row_id == 0` -> `start_row_id >= end_row_id` (same site as C05's seed, found independently)",
            "a row-set with more than one batch per block and a lower bound whose first matching row is not in the first batch the seek lands on", ["C13", "C05"]),
    "C14": ("C14", "src/array/ops.rs like(): `clear_null` wrapper dropped",
            "a NULL string operand whose raw bytes match the pattern (stored NULL with pattern '%', or computed NULL such as s || u) consumed by WHERE / OR", ["C14"]),
    "C15": ("C15", "src/executor/merge_join.rs group_by_keys: `for input in stream { input? }` -> `while let Some(Ok(input))` (an Err from a child ends the input silently)",
            "a merge join (pk-pk join on disk) with an operator below it that returns an error at some chunk: Ok with partial rows; INSERT..SELECT commits them", ["C15"]),
    "C16": ("C16", "src/binder/create_table.rs: the 'primary key implies NOT NULL' loop moved before table-level PRIMARY KEY(..) constraints are resolved",
            "a table whose key is declared with the table-level constraint syntax and no explicit NOT NULL, then a NULL reaching the key column", ["C16"]),
    "C17": ("C17", "src/planner/rules/plan.rs hash-join-on-one-eq-3 (anti join): side condition `not_depend_on(?r1, ?left)` dropped",
            "a correlated NOT EXISTS with >= 2 conjuncts, one an equality whose one side mixes outer and inner columns (the right hash key then references the left input: executor build panics)", ["C17"]),
    "C18": ("C18", "src/storage/secondary/compactor.rs: `while let Some(batch) = iter.next_batch(None).await?` -> `while let Ok(Some(batch))`",
            "a victim table with >= 2 row-sets, corruption in a non-first block of a column, and a compaction pass reading it before the query (corruption laundered into a fresh row-set)", ["C18"]),
    "C19": ("C19", "src/array/ops.rs cmp! macro, Float64 arm: compares raw f64 (`a.0 op b.0`) instead of OrderedFloat",
            "a NaN in a DOUBLE column compared with a SQL operator (IEEE semantics) while ORDER BY / GROUP BY / joins keep the total order", ["C19"]),
    "C20": ("C20", "src/binder/copy.rs from_options: `escape = None` -> `Some(quote)` taken before the QUOTE option is parsed",
            "a non-default QUOTE option and a string cell containing a double quote that must also be quoted (contains the delimiter / quote / newline)", ["C20"]),
    # ---- second round (variant hints: a different site than the first seed of the property)
    "C01b": ("C01", "src/planner/rules/plan.rs pushdown-join-condition-left: join-type guard `[Inner, RightOuter, Semi]` -> `[Inner, LeftOuter, Semi]`",
             "a LEFT OUTER JOIN whose ON clause has a left-only conjunct next to another conjunct, and a left row failing that conjunct (it must come back NULL-padded)", ["C01", "C02"]),
    "C03b": ("C03", "src/storage/secondary/storage.rs bootstrap: the 'delete vector of a dropped table is skipped' guard removed from the DV loop (kept in the row-set loop)",
             "a table with a delete vector whose row-set is later compacted away (the stale AddDV stays in the manifest), then DROP TABLE, then a reopen", ["C03"]),
    "C04b": ("C04", "src/storage/secondary/version_manager.rs rewrite_changes: the old manifest.json is removed before the compacted manifest.tmp.json is renamed over it",
             "a crash during recovery exactly between the remove and the rename: the next open finds no manifest, creates an empty one and vacuums every row-set", ["C04"]),
    "C08b": ("C08", "src/storage/secondary/version_manager.rs find_vacuum: the vacuum horizon is the newest pinned epoch (`keys().max()`) instead of the oldest",
             "a reader pinned at e1 still scanning, a commit deleting its row-sets at e2 > e1, another version pinned at >= e2, and a third pin released (waking the vacuum)", ["C08"]),
    "C10b": ("C10", "src/storage/secondary/manifest.rs drop_table_inner: the manifest write happens before the 'table still exists' check (apply_drop_table)",
             "two sessions dropping the same table, the second binding before the first finishes: two DropTable records, the directory cannot be reopened", ["C10"]),
    # ---- third round (on the repaired tree; variant hints again)
    "C03c": ("C03", "src/storage/secondary/storage.rs bootstrap: the manifest rewritten at boot drops DropTable records and keeps a CreateTable only if a table of that NAME still exists",
             "a table dropped and re-created under the same name in a manifest that has not been compacted yet, then two reopens (the second replays two CreateTable records for one name)", ["C03"]),
    "C05b": ("C05", "src/storage/secondary/merge_iterator.rs replace_pending_data: swapped arguments of compare_in_heap (the same slip as seed C07, found independently)",
             "a primary-key table with >= 3 row-sets whose key ranges interleave; after a compaction the row-set itself is unsorted and key-range scans lose rows", ["C05", "C07", "C12"]),
    "C07b": ("C07", "src/storage/secondary/compactor.rs compact_table: DeleteDV records built from a map keyed by row-set id (one delete vector per compacted row-set is logged, the others stay)",
             "a row-set with >= 2 delete vectors, a second row-set, every row deleted, a compaction, two reopens, and an INSERT that lands in the re-issued row-set id", ["C07", "C03", "C05"]),
    "C09b": ("C09", "src/storage/secondary/transaction.rs commit_inner: a DELETE is refused only if NONE (instead of ANY) of its target row-sets has been replaced",
             "a DELETE that pins its snapshot while the compactor holds the table, and a compaction that replaces only some of the row-sets the DELETE touches (one row-set above the size budget)", ["C09"]),
    "C15b": ("C15", "src/executor/mod.rs Builder::spawn: the error for a panicked operator is sent with try_broadcast (dropped when the output channel is full or inactive)",
             "a panic in an operator whose 16-slot output channel is full: the late-polled side of a join with >= 17 chunks, panic exactly at the 17th", ["C15"]),
    "C18b": ("C18", "src/storage/secondary/column.rs get_block: the checksum is verified after the block has entered the cache (and only on a cache miss)",
             "altered bytes in a .col block and at least two reads of it through one open database: the first read fails, later reads are served from the cache unchecked", ["C18"]),
    # ---- fourth round (remaining properties; repaired tree)
    "C02b": ("C02", "src/executor/hash_join.rs HashSemiJoinExecutor probe: early `return false` for a NULL key bypasses the `^ anti` inversion",
             "an anti join without residual condition (NOT EXISTS with one equality) and an outer row whose join key is NULL (it must be kept)", ["C02", "C01", "C11"]),
    "C06b": ("C06", "src/storage/secondary/block/nullable_block_iterator.rs skip: `cur_row += cnt` -> `cur_row = cnt`",
             "a nullable block with NULLs and values, read or skipped to a non-zero position, then skipped strictly inside the block, then read again (validity bitmap shifted)", ["C06"]),
    "C11b": ("C11", "src/executor/nested_loop_join.rs NestedLoopSemiJoinExecutor: `exists |= ..` -> `exists = ..`",
             "an ANTI join executed by the nested-loop implementation whose right input has >= 2 chunks and a left row matching only in a non-last chunk", ["C11", "C02"]),
    "C13b": ("C13", "src/storage/secondary/rowset/rowset_iterator.rs next_batch_inner: the key-range bitmap replaces (instead of ANDs with) the visibility map carrying the delete vectors",
             "a pk table with committed deletes and a key-range scan whose bound cuts through a batch that contains a deleted row inside the range (deleted rows reappear)", ["C13", "C07", "C05"]),
    "C16b": ("C16", "src/executor/insert.rs: the NOT NULL check moved into the loop that skips columns not in the INSERT's column list",
             "an INSERT with a column list that omits a NOT NULL / PRIMARY KEY column (filled with NULL: stored as NULL in memory, as 0 / '' on disk)", ["C16", "C05"]),
    "C20b": ("C20", "src/executor/copy_from_file.rs: csv reader built with `.trim(csv::Trim::All)`",
             "a string cell that begins or ends with whitespace (or is only whitespace: imported as NULL)", ["C20"]),
    "C12b": ("C12", "src/storage/secondary/merge_iterator.rs replace_pending_data: right-child bound `right_child < last_element` (off by one: the last heap slot is never considered)",
             "disk engine, pk table, >= 3 live row-sets with interleaving key ranges (odd heap size at a sift-down): ORDER BY pk (sort elided) comes back unsorted", ["C12", "C07", "C05"]),
    "C14b": ("C14", "src/array/primitive_array.rs clear_null: streaming rewrite reuses the 64-slot mask of the previous bitmap word when a word has no NULLs",
             "a batch of >= 128 rows in which one 64-row word contains a NULL and the NEXT word is entirely valid (TRUE results at the same bit positions become FALSE)", ["C14"]),
    "C17b": ("C17", "src/planner/rules/plan.rs apply_column0 (in-to-exists): the subquery's first output expression is no longer wrapped in Ref when it is computed",
             "IN / NOT IN over a subquery whose select item is a computed non-aggregate expression (`a in (select x + 1 from s)`): the subquery side is pruned to no columns, executor build panics", ["C17", "C01", "C02"]),
    "C19b": ("C19", "src/types/interval.rs: hand-written Ord/PartialOrd by 30-day-month time span while Eq/Hash stay field-wise",
             "two INTERVAL values with equal span but different fields (1 month vs 30 days): <, =, > all false; ORDER BY/MIN/MAX and GROUP BY/DISTINCT/hash join disagree", ["C19"]),
    # ---- fifth round (repaired tree, ten agents, third seed for most of these properties)
    "C01c": ("C01", "src/planner/rules/order.rs analyze_order: HashJoin claims the order of its right (probe) input, like MergeJoin",
             "disk engine, a LEFT / FULL OUTER hash join whose right table has a primary key, at least one unmatched left row, and ORDER BY <right pk> without LIMIT (the sort is removed, NULL-padded rows come last)", ["C01", "C12"]),
    "C04c": ("C04", "src/storage/secondary/transaction.rs commit_inner: `.truncate(true)` removed from the delete-vector file's OpenOptions",
             "a crash after a DV file was written but before the manifest append, a post-recovery DELETE on the same row-set that encodes SHORTER than the orphan, and a second recovery (stale tail read as deletions)", ["C04"]),
    "C06c": ("C06", "src/storage/secondary/block/blob_block_iterator.rs: cached begin offset refreshed from row `cnt - 1` instead of `next_row - 1` in skip()",
             "a plain / nullable varchar or blob block that is read, then skipped strictly inside the block, then read again (the first row after the skip is the concatenation of several strings)", ["C06"]),
    "C07c": ("C07", "src/storage/secondary/rowset/rowset_iterator.rs: the key-range bitmap replaces the visibility map (the same site as seed C13b, found independently)",
             "a pk table with a delete vector and a pushed-down key range whose bound cuts a batch containing a deleted row in range: deleted rows reappear, a second overlapping DELETE over-counts", ["C07", "C13"]),
    "C08c": ("C08", "src/storage/secondary/transaction.rs: read-only transactions no longer keep their pinned Version (Option<Arc<Version>> = None for readers)",
             "a reader that is open while a compaction or DROP removes row-sets of its snapshot and a stale pin is released (vacuum wakes): its directories are unlinked; the engine's own pin table no longer lists the reader", ["C08"]),
    "C10c": ("C10", "src/storage/secondary/compactor.rs run: the per-table lock guard is dropped at once (`.is_some()` instead of binding the guard)",
             "a DELETE that commits after the compactor pinned its snapshot and before the compactor commits: acknowledged, then undone by the merged row-set", ["C10", "C09"]),
    "C11c": ("C11", "src/executor/top_n.rs: the eviction bound heap_size is clamped to 1024 together with the preallocation",
             "ORDER BY with LIMIT/OFFSET planned as top-N with offset + limit > 1024 (or OFFSET without LIMIT) over more than 1024 rows", ["C11", "C12"]),
    "C14c": ("C14", "src/array/ops.rs cast Float64 -> integer: explicit range check `t <= MAX as f64` then `as`",
             "CAST(DOUBLE AS BIGINT) of exactly 2^63 (i64::MAX as f64 rounds up to it): returns 9223372036854775807 instead of an error", ["C14"]),
    "C15c": ("C15", "src/executor/copy_from_file.rs: only the JoinError of the reader thread is handled, its own Result is dropped",
             "COPY .. FROM whose reader fails by itself (malformed record, missing file): the statement returns Ok and the chunks read so far are committed", ["C15"]),
    "C18c": ("C18", "src/storage/secondary/index.rs ColumnIndex::from_bytes: decodes exactly `length` entries (footer field outside the checksum), the count check is gone",
             "a column spanning >= 2 blocks and a bit flip that LOWERS the block count in the .idx footer to a non-zero value: the trailing blocks' rows are silently missing", ["C18"]),
    # ---- round 6
    "C02c": ("C02", "src/executor/limit.rs: `processed += cardinality` moved after the `start >= end` skip (the same site as round 1's C12 seed, found independently for C02)",
             "LIMIT/OFFSET without ORDER BY (planned as Limit) over an input of >= 2 chunks with OFFSET >= size of the first chunk", ["C02", "C12", "C01"]),
    "C03d": ("C03", "src/storage/secondary/manifest.rs reopen: the re-opened (compacted) manifest file is no longer positioned at its end",
             "a reopen of a non-empty database (manifest rewritten and re-opened) followed by any logged write in that session and another reopen: the new record overwrites the head of the manifest", ["C03", "C04"]),
    "C05c": ("C05", "src/storage/secondary/transaction.rs scan: the merge iterator is given the TABLE-level key column ids instead of their positions in the scanned column list (rebased onto the sorted-scan fix; patch.orig.diff is the agent's original)",
             "a table whose primary key is not its first column (or a scan list that omits / reorders earlier columns), >= 2 row-sets with interleaved keys, an ordered scan", ["C05", "C12", "C07"]),
    "C09c": ("C09", "src/storage/secondary/compactor.rs: DeleteDV records are logged for every row-set of the table, not only the selected (merged) ones",
             "a partial compaction (some row-sets exceed the size limit and are left alone) of a table whose unselected row-set has a delete vector: its deleted rows reappear", ["C09", "C07"]),
    "C12c": ("C12", "src/executor/top_n.rs: the last `limit` rows are popped from the heap instead of sorting it and skipping `offset`",
             "top-N (ORDER BY + LIMIT/OFFSET) with fewer than offset + limit input rows, or OFFSET without LIMIT", ["C12", "C11", "C01", "C02"]),
    "C13c": ("C13", "src/planner/rules/range.rs analyze_range And: ranges are merged when they are on columns of the same TABLE (column id ignored)",
             "a conjunction of a key range and a range on another column bounded on the opposite side (k >= c1 AND v < c2), key conjunct first", ["C13", "C01"]),
    "C16c": ("C16", "src/array/ops.rs cast Int16 -> Int64 produces an Int32 array",
             "CAST(smallint AS BIGINT) (explicit, or implicit: SMALLINT op BIGINT, SMALLINT join key against BIGINT, INSERT of a SMALLINT expression into a BIGINT column)", ["C16", "C17", "C14"]),
    "C17c": ("C17", "src/planner/rules/plan.rs pushdown-proj-topn: the order keys are no longer counted as used columns",
             "ORDER BY <column that is not selected> LIMIT n (top-N) under a projection: the pruned child does not produce the key", ["C17", "C01", "C12"]),
    "C19c": ("C19", "src/array/ops.rs cmp!: strings compare with trailing blanks trimmed (PAD SPACE), while DataValue Ord/Eq/Hash stay exact (rebased; patch.orig.diff is the agent's original)",
             "two strings that differ only in trailing blanks: `=` / `<` in a filter or nested-loop join disagree with GROUP BY / DISTINCT / hash join / ORDER BY", ["C19", "C14"]),
    "C20c": ("C20", "src/types/interval.rs hours(): `% 24` (the printed form drops whole days of the millisecond part)",
             "an INTERVAL whose time part is >= 24 hours ('30 hours'): COPY TO writes '6 hours'; both tables print alike, so only a comparison by value sees it", ["C20", "C19"]),
}


def main():
    for tag, (prop, change, needs, caught_by) in SEEDS.items():
        d = os.path.join(VERIF, "seeded", tag)
        if not os.path.isdir(d):
            print("missing", tag)
            continue
        conf = open(os.path.join(d, "confirm.log")).read() if os.path.exists(os.path.join(d, "confirm.log")) else ""
        m = re.search(r"with_rc=(\d+) without_rc=(\d+) other_test_failures=(\d+)", conf)
        detect = {}
        for f in sorted(os.listdir(d)):
            if f.startswith("detect_"):
                txt = open(os.path.join(d, f)).read()
                detect[f[7:-4]] = {"violation_lines": txt.count("\nVIOLATION") + txt.startswith("VIOLATION"), "exit": re.findall(r"exit=(\d+)", txt)[-1:] or None,
                                   "summary": [l for l in txt.splitlines() if " [quick] " in l or " [thorough] " in l][-1:]}
        meta = {
            "breaks_property": prop,
            "change": change,
            "needs_in_order_to_manifest": needs,
            "demonstration": "seed_demo.rs (an example program: `cargo run --offline --example seed_demo` in a worktree with patch.diff applied)",
            "confirmed_by_me": {
                "what_i_ran": "tools/confirm_seed.sh in the agent's scratch worktree: demo with the change, demo with the src change stashed, `cargo test --workspace --no-fail-fast --offline` with the change",
                "demo_exit_with_change": int(m.group(1)) if m else None, "demo_exit_without_change": int(m.group(2)) if m else None,
                "test_failures_other_than_known_flaky": int(m.group(3)) if m else None,
            },
            "checks_run_against_it": "tools/try_seed.sh (git -C /repo apply patch.diff; ./check <prop> --tier quick; git checkout; rebuild)",
            "detected_by": detect,
            "expected_detectors": caught_by,
        }
        json.dump(meta, open(os.path.join(d, "meta.json"), "w"), indent=1)
    print("meta written for", len(SEEDS))


if __name__ == "__main__":
    main()
