#!/usr/bin/env python3
"""Developer tool: make sure every known/<prop>.<sig>.txt case list has an entry in known_findings.json.
Titles/locations come from TITLES below (hand-written, keyed by property and signature prefix); the case lists
themselves are written only by `./check <prop> --regen-known` (never at check run time)."""
import json, os, re, sys
VERIF = os.path.dirname(os.path.dirname(os.path.abspath(__file__)))
sys.path.insert(0, os.path.join(VERIF, "checks"))

# (property, signature regex) -> (title, where)
TITLES = [
    ("C01", r"rule-unsound_expr_if-not", "rewrite rule if-not: (if (not c) a b) => (if c b a) is wrong when c is NULL (both sides take their ELSE branch, which differ)", "src/planner/rules/expr.rs if-not"),
    ("C01", r"rule-unsound_expr_(eq-trans|and-gt-lt-conflict)", "rewrite rules eq-trans / and-gt-lt-conflict are only filter-equivalent: as projected values (and under NOT) they turn NULL into FALSE; the repo's unit tests and_eq_const / constant_gt_lt_conflict require both rules, so they cannot be removed without editing tests", "src/planner/rules/expr.rs"),
    ("C01", r"rule-unsound", "a rewrite rule applied alone changes the result of a well-typed instantiation of its left-hand side", "src/planner/rules"),
    ("C01", r"rows-differ_proj_(mulzero|subself|eqself)", "NULL-unsafe scalar rewrite rules (mul-zero, sub-cancel, eq-eq family) change results on NULL rows", "src/planner/rules/expr.rs"),
    ("C01", r"rows-differ_(join|selfjoin|derived)", "optimised join plans differ from the unoptimised plan: hash join matches NULL = NULL keys; join-condition pushdown applied to outer joins; filter pushed below LIMIT", "src/executor/hash_join.rs; src/planner/rules/plan.rs (pushdown-join-condition-*, pushdown-filter-limit/topn)"),
    ("C01", r"rows-differ_agg", "aggregates over an empty input differ between optimised and unoptimised plans", "src/planner/rules/expr.rs / src/executor/simple_agg.rs"),
    ("C01", r"rows-differ_proj_", "range-conflict rules (and-gt-lt-conflict etc.) and constant folding change results on NULL rows", "src/planner/rules/expr.rs"),
    ("C02", r"no-answer_err_join(-ordered)?_(right|full)", "RIGHT/FULL OUTER joins that are not planned as hash/merge joins hit `todo!()` in the nested-loop join: the statement fails (no answer for a core-subset query)", "src/executor/nested_loop_join.rs:26"),
    ("C02", r"no-answer_panic_subquery", "some IN/EXISTS/scalar subqueries are planned into `apply` nodes or unresolved column references the executor cannot build", "src/planner/rules/plan.rs (subquery_rules); src/executor/mod.rs"),
    ("C02", r"rows-differ_(agg|groupby)", "aggregate semantics differ from SQL: SUM over empty/NULL-only input, COUNT(DISTINCT) counting NULL, hash-agg SUM reset by NULL", "src/executor/evaluator.rs; src/array/ops.rs (sum/count distinct states)"),
    ("C02", r"(rows-differ|no-answer_err)_window", "window functions ignore PARTITION BY and ORDER BY and return the running aggregate over the input order (the repository's tests/sql/window_function.slt pins `sum(a) OVER ()` = 1, 3, 6); MIN/MAX/SUM OVER on SMALLINT/BIGINT/DOUBLE columns panic in the window operator (result builder typed by the argument, running value pushed with another type)", "src/executor/window.rs; src/binder/expr.rs bind_window_function"),
    ("C02", r"rows-differ_subquery", "subquery answers differ from SQL: NOT IN is planned as an anti join that is not NULL-aware (a NULL on either side must make the predicate unknown); a correlated scalar COUNT subquery is decorrelated without the zero for groups with no rows", "src/planner/rules/plan.rs subquery_rules"),
    ("C02", r"rows-differ_(join|selfjoin|derived|subquery)", "join/subquery answers differ from SQL: NULL = NULL matches in hash/semi joins, NOT IN over NULLs, outer-join ON-condition pushdown", "src/executor/hash_join.rs; src/planner/rules/plan.rs"),
    ("C02", r"rows-differ_proj_", "NULL-unsafe scalar rewrites (a*0, a-a, a=a, conflicting ranges) evaluate to non-NULL on NULL rows", "src/planner/rules/expr.rs"),
    ("C03", r"reopen-fails", "CREATE VIEW consumes a table id that is not logged in the manifest: a table created after a view is replayed under a different id and the database no longer opens", "src/storage/secondary/manifest.rs (replay assigns ids by catalog order); src/executor/create_view.rs"),
    ("C11", r"implementation-fails:nl@join:(right|full)", "the nested-loop join does not implement RIGHT / FULL OUTER joins (`todo!()`): it panics where hash and merge join answer", "src/executor/nested_loop_join.rs:26"),
    ("C11", r"implementations-disagree:hash-vs-simple@agg", "simple aggregation returns SUM = 0 for inputs whose values are all NULL, hash/sort aggregation return NULL", "src/executor/simple_agg.rs / src/array/ops.rs sum()"),
    ("C12", r"setup_err", "(thorough layouts) with record_first_key = false a DELETE .. WHERE k = c on a primary-key table panics in start_rowid (see C13)", "src/storage/secondary/rowset/disk_rowset.rs start_rowid"),
    ("C07", r"op_err", "(thorough layouts) with record_first_key = false a DELETE .. WHERE k = c / k < c on a primary-key table panics in start_rowid (see C13)", "src/storage/secondary/rowset/disk_rowset.rs start_rowid"),
    ("C13", r"nofirstkey", "with record_first_key = false every pushed-down key range panics in start_rowid (empty first_key decoded as i32); conflicting two-sided ranges return all rows", "src/storage/secondary/rowset/disk_rowset.rs start_rowid; src/planner/rules/range.rs"),
    ("C13", r"@pos0:int$", "an empty two-sided range (k > c and k < c) pushed into the scan returns every row", "src/storage/secondary/rowset/rowset_iterator.rs (start/end positions of an empty range); src/planner/rules/range.rs"),
    ("C13", r"@pos0:(bigint|smallint)", "range pushdown on a BIGINT/SMALLINT key compares the INT literal with the key by DataValue variant order (and start_rowid only supports Int32): missing and extra rows", "src/storage/secondary/rowset/rowset_iterator.rs; disk_rowset.rs start_rowid; src/planner/rules/range.rs (no type/position check)"),
    ("C13", r"@pos0:(varchar|date)", "range pushdown on a non-integer primary key panics in start_rowid ('for now support range-filter scan by sort key type of int32')", "src/storage/secondary/rowset/disk_rowset.rs:165; src/planner/rules/range.rs"),
    ("C13", r"@pos[12]:", "range pushdown when the primary key is not the first table column: start_rowid reads column 0's first keys and the row filter is applied to the first *scanned* column", "src/storage/secondary/rowset/disk_rowset.rs start_rowid; rowset_iterator.rs (id == 0); src/planner/rules/range.rs"),
    ("C20", r"escape-option", "with an explicit ESCAPE character COPY .. TO still doubles quotes and does not escape the escape character, while COPY .. FROM un-escapes: cells containing the escape character and a quote do not round-trip (the csv writer cannot escape the escape character; not small)", "src/executor/copy_to_file.rs / copy_from_file.rs"),
    ("C20", r"empty-string-imported-as-null", "the empty string (and, for a BLOB column, the empty blob) and NULL are both an empty field: '' is imported as NULL (the csv reader does not tell a quoted empty field from an unquoted one)", "src/array/mod.rs push_str; src/executor/copy_from_file.rs"),
    ("C20", r"header", "COPY .. TO with HEADER does not write a header line, but COPY .. FROM with HEADER skips the first line: the first data row is lost", "src/executor/copy_to_file.rs (has_headers only affects serde serialisation); src/executor/copy_from_file.rs"),
    ("C20", r"import-fails@.*null", "NULL is exported as the text NULL, which cannot be imported into a non-string column", "src/executor/copy_to_file.rs (get_to_string); src/array/data_chunk_builder.rs push_str_row"),
    ("C20", r"rows-differ@str", "string columns do not round-trip: NULL is exported as the text 'NULL' (imported as that string), the empty string is imported as NULL", "src/executor/copy_to_file.rs; src/array/data_chunk_builder.rs push_str_row"),
    ("C20", r"rows-differ@nonstr", "non-string columns do not round-trip through CSV (value formatting vs parsing, e.g. extreme doubles)", "src/executor/copy_to_file.rs; src/types"),
    ("C14", r"wrong-value_case", "CASE/IF takes the validity of its result from the validity of the condition instead of the selected branch: a NULL branch yields 0, a non-NULL branch yields NULL", "src/array/ops.rs select_op"),
    ("C14", r"wrong-value_cast", "CAST(int AS BOOLEAN) leaves the raw value under NULL slots: WHERE/AND/OR read it as TRUE", "src/array/ops.rs cast (no clear_null)"),
    ("C14", r"evaluation-fails", "expressions that panic inside the evaluator: x % 0, (p AND q) AND .., NOT (NOT p) forms produced by the rewrite rules", "src/array/ops.rs rem; src/planner/rules/expr.rs"),
    ("C14", r"folded-differs", "`select not null` is rejected by the type checker (NOT on the NULL type) while NOT over a NULL boolean column is NULL at run time", "src/planner/rules/expr.rs eval_constant"),
    ("C14", r"overflow-not-an-error_extreme|spurious-error", "the comparison-with-addition rules (gt-add family: (a + b) > c => a > c - b) move a term across the comparison: the rewritten expression overflows where the original does not and vice versa (error <-> value for INT MIN/MAX operands); the repo's unit test constant_moving requires the rule", "src/planner/rules/expr.rs eq-add .. le-add"),
    ("C14", r"overflow-not-an-error", "SUM over INT overflows inside the aggregate (panic in debug builds, wrap-around in release builds) instead of failing with an error: the aggregate state has no fallible path", "src/array/ops.rs sum; src/executor/evaluator.rs Ext::add"),
    ("C14", r"overflow-not-an-error_OLD", "integer overflow (+, -, *, unary -, MIN / -1, SUM) and % by zero panic inside the operator (debug) / wrap (release) instead of returning an error value", "src/array/ops.rs arithmetic kernels"),
    ("C14", r"wrong-value", "vectorised evaluation differs from scalar three-valued semantics", "src/array/ops.rs"),
    ("C19", r"less-than-operator-fails|query-fails", "comparison operators (=, <, ...) are accepted by the type checker for TIMESTAMP / INTERVAL / BLOB but have no vectorised implementation ('no function eq/gt'): the relations used by ORDER BY / GROUP BY cannot be expressed with the SQL operators", "src/array/ops.rs (cmp kernels: missing variants); src/planner/rules/type_.rs"),
    ("C16", r"declared-precision-or-scale-not-enforced", "the precision and scale of a DECIMAL(p,s) column are not enforced: 1.255 and 123456789012.5 are stored unchanged in a DECIMAL(10,2) column (the cast to DECIMAL ignores p and s)", "src/array/ops.rs cast (Decimal target)"),
    ("C16", r"lossy-or-invalid-conversion-accepted", "INSERT converts with loss instead of failing: a fractional literal is truncated into an integer column (1.5 -> 1)", "src/array/ops.rs (cast), src/executor/insert.rs"),
    ("C17", r"optimizer-panics", "the optimizer panics (egg extractor unwrap) on NOT IN over a filtered subquery and on a non-constant LIMIT", "src/planner/optimizer.rs / egg extract; src/planner/rules/plan.rs subquery_rules"),
    ("C17", r"malformed-plan_limit-not-constant", "a LIMIT that is not a constant survives planning; the executor answers with an error (no plan for it)", "src/binder/select.rs bind_query; src/executor/mod.rs limit_value"),
    ("C17", r"malformed-plan_apply", "correlated IN / scalar subqueries whose correlation is not a plain equality stay `apply` nodes, which the executor cannot run", "src/planner/rules/plan.rs subquery_rules"),
    ("C17", r"malformed-plan_unresolved-subquery", "scalar subqueries in the select list and IN subqueries under OR survive optimisation as sub-plans inside expressions (no executor for them)", "src/planner/rules/plan.rs subquery_rules"),
    ("C17", r"malformed-plan:unresolved-subquery", "scalar / nested IN subqueries survive optimisation as sub-plans inside expressions (no executor for them)", "src/planner/rules/plan.rs subquery_rules"),
    ("C17", r"malformed-plan_column-not-in-input", "a computed column of a derived table (a `ref` to `t1.a + t2.c`) used in an outer join condition: once the derived table's projection is merged away the column analysis still treats the ref as one opaque column that neither join input produces, so `pushdown-filter-join` pushes the condition onto the side that lacks its base columns (executor construction panics: column not found from input); widening the column set of a ref changes the plans pinned by the planner tests (not small); the same analysis fails a correlated scalar subquery that groups by, and selects, an expression of the inner table (`(select t2.a + 1 from t2 where t2.a = t1.a group by t2.a + 1)`): the decorrelated filter references the inner column above the aggregate that no longer produces it", "src/planner/rules/plan.rs analyze_columns / depend_on; pushdown-filter-join rules"),
    ("C17", r"malformed-plan", "the optimised plan violates what the executor requires", "src/planner/rules/plan.rs"),
    ("C17", r"operator-panics|execution-panics|executor-build-panics", "accepted statements whose plan panics in the executor: RIGHT/FULL nested-loop join todo!(), non-constant LIMIT, scalar subquery forms", "src/executor/nested_loop_join.rs; src/executor/mod.rs"),
    ("C18", r"database-does-not-open", "every row-set index is decoded when the database is opened: one corrupted *.idx file makes Database::new_on_disk panic, so tables that are not affected cannot be read either", "src/storage/secondary/storage.rs bootstrap (DiskRowset::open for all row-sets); src/db.rs new_on_disk unwrap"),
    ("C05", r"outcome_rows-vs-err", "key-range scan fails on disk when the primary key is not the first table column (start_rowid decodes column 0's first keys as i32 and panics); the memory engine answers", "src/storage/secondary/rowset/disk_rowset.rs:141 start_rowid"),
    ("C05", r"rows-differ|column-types", "NULL inserted into a NOT NULL column is stored as 0/'' on disk but as NULL in memory (no NOT NULL check on INSERT)", "src/executor/insert.rs; src/storage/secondary/column (non-nullable encodings)"),
]


# fix commits in /repo: subject prefix -> (property, what failed: the witness the checks reported before the fix)
FIXED = [
    ("fix: table scan merges row-sets by primary key", "C12", "disk, pk table, history [I1,I2]: `select k, v from t order by k` returned the row-sets concatenated (2,4,6,1,5,9); also C07 ordered scan, C05, C01"),
    ("fix: TopN does not preallocate", "C12", "`select k, v from t order by k offset 1`: TopN panicked with capacity overflow, statement returned Ok with zero rows (10 530 enumerated cases)"),
    ("fix: SUM skips NULL inputs", "C02", "`select a, sum(b) from t1 group by a` over (2,NULL),(2,2): NULL reset the running sum; result depended on row-set order (flaky cases)"),
    ("fix: COUNT(DISTINCT x) does not count NULL", "C02", "`select count(distinct b) from t1` over (1,1),(2,NULL),(NULL,3),(2,2) returned 4, SQL says 3"),
    ("fix: hash join, hash semi/anti join never match NULL keys", "C02", "`select .. from t1 join t2 on t1.a = t2.a` returned the NULL/NULL pair; EXISTS kept rows with NULL keys (C01 optimizer off/on disagreed)"),
    ("fix: merge join never matches NULL keys", "C01", "ordered-subquery join with NULL keys on both sides returned NULL/NULL pairs under the optimizer (merge join) but not without"),
    ("fix: compactor pins its snapshot per table", "C09", "workload del-u, schedule [compactor.pass, compactor.pinned, A/delete u committed, compactor.table(u)...]: acknowledged delete undone (5 270 of 9 060 schedules)"),
    ("fix: DELETE fails instead of writing delete vectors", "C09", "workload del-u, schedule [compactor pass commits u, then A/txn.locked(u) with a snapshot pinned before the pass]: acknowledged delete had no effect"),
    ("fix: DROP TABLE takes the table lock", "C08", "workload R+drop, schedule [compactor.read_done(t), W/drop_table.applied, W commit, compactor commit, vacuum]: 'vacuum stopped unexpectedly' NotFound panic"),
    ("fix: executing a plan whose table was dropped", "C10", "workload drop-t|sel-t, schedule [B planned, A drop committed, B run.planned]: session panicked (Option::unwrap in executor::Builder::new)"),
    ("fix: DROP TABLE of a table that a concurrent session", "C10", "workload drop-t|drop-t: second DROP panicked in executor/drop.rs"),
    ("fix: recovery ignores row-sets and delete vectors of tables", "C10", "workload drop-t|ins-t, schedule [B pinned t, A drop committed, B commit]: both acknowledged, reopen panicked (tables.get(..).unwrap())"),
    ("fix: CREATE TABLE / DROP TABLE are serialized", "C10", "workload create-y|create-y: both passed the binder, duplicate CreateTable in the manifest, reopen failed with Duplicated(table y) (480 schedules)"),
    ("fix: a truncated record at the end of the manifest", "C04", "history [CT], crash at manifest.append.write + j for every 0 < j < len: Database::new_on_disk panicked with JsonDecode EOF"),
    ("fix: a delete-vector file left behind by a crash", "C04", "history [CT,I1,D], crash at dv.write/dv.synced/manifest.append.write+0: post-recovery `delete from t where k = 1` failed with AlreadyExists (90 crash states)"),
    ("fix: a panic inside an operator task fails the statement", "C15", "any operator panic (e.g. scan at item 1): Database::run returned Ok with the rows produced so far"),
    ("fix: operator output channel is deactivated before", "C10", "free-running multi-thread runtime: chunks broadcast between spawn() and rx.deactivate() were lost (reported independently by six seeding agents; not reachable by the gate scheduler, fixed by inspection)"),
    ("fix: semi and anti joins are not rewritten into merge joins", "C17", "disk, pk tables: `select id from a where id in (select id from b where w = 1)` panicked with 'invalid join type: Semi'"),
    ("fix: block checksum is verified before the block enters the cache", "C18", "flip bit 0 of byte 0 of 0_3/0.col: first `select k, s, v from a` failed with Checksum error, the repeated read returned altered rows (480 + 584 cases)"),
    ("fix: column index decoding does not trust", "C18", "0_3/0.idx footer length corrupted: process abort in Vec::with_capacity (44 cases) / silently truncated column (2 cases)"),
    ("fix: INSERT enforces NOT NULL", "C16", "`insert into t values (null, 7)` into `x smallint not null`: accepted; memory stored NULL, disk stored 0 (74 cases; C05 rows-differ)"),
    ("fix: key ranges are pushed into the scan only for an INT primary key", "C13", "pk in column 1 or 2, or BIGINT/SMALLINT/VARCHAR/DATE keys: `select k, v from t where k = 0` returned missing/extra rows or panicked (7 000+ enumerated cases; C05 memory vs disk; C07/C12 thorough layouts)"),
    ("fix: start_rowid scans from the beginning when first keys are not recorded", "C13", "record_first_key = false: every pushed-down key range panicked (780 cases)"),
    ("fix: the condition pushed into a scan is re-applied", "C13", "`select k, v from t where k > 16 and k < 16` returned the whole table (36 cases)"),
    ("fix: a one-sided ON conjunct is pushed below a join only", "C01", "`t1 left join t2 on t1.a = t2.a and t1.b > 1` lost unmatched left rows under the optimizer; rule check: pushdown-join-condition-left(-1) with left_outer/anti (384 instantiations)"),
    ("fix: filters are no longer pushed below LIMIT", "C01", "`select * from (select a, b from t1 order by a, b limit 2) s where a > 0` returned rows outside the first two; rule check: pushdown-filter-limit/-topn (85 instantiations)"),
    ("fix: scalar rewrites that are wrong for NULL operands", "C01", "`select a * 0, a - a, a = a from t1` on NULL rows: 0 / 0 / true instead of NULL; rule check: mul-zero, sub-cancel, eq-eq, ne-eq, gt-eq, lt-eq, ge-eq, le-eq"),
    ("fix: x % 0 yields NULL", "C14", "`select a % b from t` with b = 0 panicked inside the operator; `select 1 % 0` panicked while folding"),
    ("fix: constant folding of AND / OR is three-valued", "C14", "`select null and false` folded to NULL, run time gives false; `null or true` likewise"),
    ("fix: CAST(number AS BOOLEAN) clears the raw bit", "C14", "`select i from t where cast(a + b as boolean)` returned rows whose a + b is NULL"),
    ("fix: CASE / IF takes its validity from the selected branch", "C14", "`case when q then b else null end` returned 0 where q is false; `case when a is null then b else a end` returned NULL for non-NULL a"),
    ("fix: the vectorised SUM skips NULL slots", "C11", "agg without keys over an all-NULL column: SUM = 0, hashagg says NULL; C01/C02 `select sum(b) from t1 where a > 100` returned 0"),
    ("fix: the nested-loop join implements RIGHT and FULL OUTER", "C11", "every RIGHT/FULL join through the nested-loop join panicked in todo!() (3 160 cases; C02 no-answer, C17 operator-panics)"),
    ("fix: equi-join keys of different numeric types", "C01", "`t1(a int primary key) join t2(a bigint) on t1.a = t2.a` (db keyed:mix:mix): the optimised plan (hash join) returned no rows, the unoptimised plan 4; every join shape on mixed-width keys (2 000+ cases; C02 likewise)"),
    ("fix: remove the if-not rewrite rule", "C01", "rule check expr/if-not: (if (not c) a b) and (if c b a) differ when c is NULL (28 instantiations)"),
    ("fix: compaction removes the delete vectors", "C03", "history [CTt, It1, It1, DtA], two reopens, insert (99,99): the acknowledged row is invisible (464 cases of the strengthened check; reported first by a seeding agent as a defect of the unchanged tree that the depth-4 alphabet without whole-table deletes had missed)"),
    ("fix: the manifest records the id", "C03", "history [CTt, CV or CI, CTu, Iu1] + reopen: NotFound(table 2) (24 cases; listed as known finding KF-C03-reopen-fails until repaired)"),
    ("fix: CREATE TABLE / CREATE VIEW reject a column named _rowid_", "C17", "form `create table x(_rowid_ int)`: operator panic with the catalog mutex held (every later statement panics), on disk the logged CreateTable makes the directory unopenable"),
    ("fix: SET of an unknown variable", "C17", "form `set foo = 1`: panic 'not a plan: Set'; `set mock_rowcount_t1 = 'x'`: unwrap of a cast error"),
    ("fix: INSERT checks that the number of values", "C17", "form `insert into t1 values (1)` (two-column table): insert operator panicked"),
    ("fix: unsupported column options", "C17", "form `create table x(a int default 1)`: todo!() in the binder"),
    ("fix: unsupported SQL forms and wrong function", "C17", "forms `select f(1)` (unknown function), `select max() from t1`, `select t1.* from t1`, NATURAL/USING joins, window frames, a UDF called with the wrong number of arguments: todo!()/index panics in the binder"),
    ("fix: comparison operators for TIMESTAMP", "C19", "types timestamp / interval / blob: `select x < y` failed with 'no function lt' although ORDER BY / GROUP BY / MIN work (6 known findings until repaired)"),
    ("fix: a plan expression that is itself a column", "C14", "`select i from t where (p and q) and p is not null` and `select i from t where p` (boolean column as the whole condition): evaluator panicked 'can not evaluate expression' (16 cases, listed as known until repaired)"),
    ("fix: integer and decimal arithmetic is checked", "C14", "`select (a + b) + 1 from o` with a = INT MAX, b = NULL panicked (overflow on the raw value under a NULL slot); a + b, a - b, a * b, - a, MIN / -1 overflow panicked (debug) / wrapped (release)"),
    ("fix: the cost function never prefers", "C17", "`select a, b from t1 where a in (select a from t2)` on an empty t1 (disk, real statistics): un-rewritten IN subquery kept at cost 0, executor panicked 'column not found from input'; NOT IN over an empty subquery: NaN cost, egg extractor unwrap (44 cases)"),
    ("fix: a LIMIT / OFFSET that is not", "C17", "`select a from t1 limit (select count(*) from t2)`: panic in the row estimate / executor builder"),
    ("fix: INSERT refuses to truncate a fractional value", "C16", "`insert into t values (1.5, 7)` into x INT / BIGINT / SMALLINT (any constraint, both engines): stored 1 (24 cases, listed as known findings until repaired)"),
    ("fix: a key-range scan starts before the first block", "C13", "pk table, 64-byte blocks (12 INT keys per block), keys 0..9 then 30 rows with k = 10: `select count(*) from t where k = 10` returned 4, `k >= 10` lost the same rows (36 cases of the key sets whose duplicates straddle block boundaries; pointed out by a seeding agent, missed before because the duplicates of the original key set did not straddle a boundary)"),
    ("fix: remove the and-null / or-null rewrite rules", "C14", "`select i, null and q from t`: NULL for q = false (SQL: false); `null or q`: NULL for q = true"),
    ("fix: the untyped NULL is accepted as an operand", "C14", "`select i from t where (null and q) and p is not null`: filter operator panicked 'filters can only accept bool array'; `a = null`, `a + null`: 'no function eq(Int32, NULL)' (80 cases)"),
    ("fix: COPY .. TO writes NULL as an empty field", "C20", "1-row table (NULL) of any non-string type: import failed with 'failed to convert string \"NULL\" to int'; string NULL came back as the string 'NULL'; with HEADER the first data row was lost on import (14 known-finding classes until repaired)"),
    ("fix: INSERT enforces the precision and scale", "C16", "`insert into t values (1.255, 7)` / `(123456789012.5, 7)` into x DECIMAL(10,2): stored unchanged (8 cases, listed as known until repaired)"),
    ("fix: SUM and COUNT accumulate with checked arithmetic", "C14", "`select sum(a) from o` over (INT MAX),(INT MAX) panicked (debug) / wrapped (release); C02 typed aggregates: `select g, sum(si) from n group by g` on a SMALLINT column panicked 'invalid operation: Int16 add Int16' (28 cases)"),
    ("fix: a window function aggregates its own argument", "C02", "`select g, si, min(si) over (partition by g) from n`: window operator panicked 'type mismatch. builder: Int16, value: Int32'; `select g, sum(a) over () from t` summed g"),
    ("fix: the disk encoding of INTERVAL keeps the sub-day part", "C19", "interval domain with `cast('1 hour' as interval)`: stored on disk it came back as the zero interval (memory keeps it); pointed out by a seeding agent"),
    ("fix: parsing a BLOB from text undoes the escaping", "C19", "blob values 'a''b', 'c\\d', '\\x5c27': print -> parse gave a different value (roundtrip-value-differs@blob, 3 of 8 values)"),
    ("fix: casting a BLOB or VECTOR array", "C20", "types [blob], any cell: COPY .. FROM panicked in the insert operator (todo!(\"cast array\") for BLOB -> BLOB); also `insert into u select b from t`"),
    ("fix: the zero INTERVAL prints as", "C20", "types [interval], cell interval '0' day: exported as an empty field, imported as NULL"),
    ("fix: EXTRACT of an unsupported field", "C17", "forms `select extract(hour from date '2020-01-01')`, `select extract(day from interval '1' day)`: todo!() in the kernel"),
    ("fix: a type the engine does not have", "C17", "forms `create table x(a real)`, `select cast(a as time) from t1`, `create table x(a vector)`, `create function g(real) ..`: todo!() in the type conversion"),
    ("fix: INSERT into a VECTOR(n) column checks the length", "C16", "`insert into vx values (3, null)`: panic in the array builder; `'[1,2]'` / `'[1,2,3,4]'` stored in a VECTOR(3) column, after which GROUP BY / ORDER BY / joins and every scan after a reopen panicked"),
    ("fix: comparison operators for VECTOR", "C19", "type vector(3): `l.x = r.x` / `l.x < r.x` failed with 'no function eq(Vector, Vector)'"),
    ("fix: a row-set that can not be opened is isolated", "C18", "any byte of 0_3/0.idx altered: Database::new_on_disk panicked, table b (not affected) unreadable too (3 648 enumerated cases, the known finding KF-C18-database-does-not-open_idx until repaired)"),
    ("fix: a left or full outer merge join is not ordered", "C01", "db pkpk:mix:mix, disk: `select t2.a, t2.c, t1.a from t2 left join t1 on t2.a = t1.a order by t1.a` came back unsorted with the optimizer (sort removed above a LEFT/FULL OUTER merge join; 18 cases)"),
    ("fix: a plan class is ordered only by what all", "C01", "db pkpk:dup:high, disk, statistics t1big: `.. from t2 right join t1 on t2.a = t1.a order by t1.a` unsorted: the sort was removed because the class contains a merge join, the hash join was extracted (4 cases; hazard pointed out by a seeding agent)"),
    ("fix: a sorted scan merges row-sets by the primary key even when the key is not selected", "C12", "disk, t(a int primary key, b int, c int), two inserts with interleaved keys: `select b from t order by a` returned the row-sets concatenated (the optimizer drops the ORDER BY of a key-ordered scan, column pruning drops the key, the scan fell back to concatenation); pointed out by a seeding agent; also C01, C02"),
    ("fix: a window function above ORDER BY or DISTINCT keeps its value", "C01", "`select a, row_number() over (order by a) from t order by b` returned NULLs (optimizer on) / the argument column instead of the window value: pushdown-proj-order pruned the window output below the Order node; pointed out by a seeding agent"),
    ("fix: rewrites that drop or add an INT literal keep the data type", "C17", "`select si + 0 from n` (si SMALLINT): optimized plan returns SMALLINT where the bound query declares INT (output schema changed); a view created from it panicked downstream operators; pointed out by a seeding agent; also C16"),
    ("fix: the window operator skips an empty input chunk", "C17", "db plain:nul:nul on disk: `select b, count(a) over () from t1 where b > 0 order by b limit 3` panicked in window.rs (unwrap of an empty chunk builder)"),
    ("fix: a character string compares with a value of another type", "C14", "type matrix: `select dt < '2024-01-01' from ty`, `select i = s from ty`: accepted by the type checker, 'no function gt(String, Date)' at run time (132 operand pairs x 6 operators)"),
    ("fix: division and modulo accept the untyped NULL", "C14", "type matrix: `select i / null from ty`, `select i % null from ty`: 'no function div(Int32, NULL)'"),
    ("fix: DATE and INTERVAL arithmetic is typed as the kernels implement it", "C14", "type matrix: `select dt + iv from ty` failed with 'no function add(Interval, Date)' (add-comm swapped the operands); `dt * iv`, `iv - dt`, `dt % iv` type-checked without a kernel"),
    ("fix: LIKE takes a pattern that is not a constant", "C14", "type matrix: `select s like s from ty` panicked in the evaluator ('like pattern must be a string constant'); 'a.c' matched 'abc', 'a(%' panicked on the regex"),
    ("fix: unary minus and plus accept a SMALLINT", "C14", "type matrix: `select - si from ty`: 'no function -(Int16)'"),
    ("fix: CASE evaluates for every result type", "C14", "type matrix / C02 string-expr: `select case when a > 1 then 'big' else 'small' end from t3`: 'no function case(String, String)' (also BOOLEAN, TIMESTAMP, BLOB branches)"),
    ("fix: EXTRACT evaluates on an INTERVAL", "C14", "type matrix: `select extract(year from iv) from ty`: 'no function extract(Interval)'"),
    ("fix: an aggregate of a constant is not folded to the constant", "C14", "type matrix: `select max(1) from ty`, `select min('a') from ty`: aggregation operator panicked 'not aggregation: 1'; folded value wrong over an empty input"),
    ("fix: REPLACE takes search and replacement strings that are not constants", "C14", "type matrix: `select replace(s, s, s) from ty` panicked in the evaluator ('replace from must be a string constant')"),
    ("fix: EXTRACT of hour, minute or second from a DATE is 0", "C14", "type matrix: `select extract(hour from dt) from ty`: 'no function extract HOUR from(Date)'"),
    ("fix: a DELETE does not delete, and count, rows that a concurrent DELETE has just deleted", "C10", "workload del-t|del-t (two sessions, `delete from t where a = 1` each), schedule B pins+locks, A scans, B commits, A commits: both report 1 deleted row (570 schedules); pointed out by a seeding agent"),
    ("fix: INSERT .. SELECT of no rows succeeds on the disk engine", "C05", "history [IT1, IT0] (`insert into t(k, v, s) select k, v, s from t where k > 1000`): disk engine fails with 'empty rowset' at commit, memory engine reports 0 inserted rows; pointed out by a seeding agent"),
    ("fix: DISTINCT ON with ORDER BY is planned into an executable plan", "C17", "`select distinct on (a) b from t1 order by a`: executor construction panicked 'column $0.1 not found from input' (the only DISTINCT ON form of the corpus was one the binder rejects); pointed out by a seeding agent"),
    ("fix: a DOUBLE that is infinite, NaN or beyond the range of DECIMAL", "C14", "table fd(d double, e decimal): `select i, d > e from fd` with d = 1e300 panicked (Decimal::from_f64_retain(..).unwrap()), likewise `cast(d * d as decimal)`; pointed out by a seeding agent"),
    ("fix: nullable block iterator keeps the validity", "C06", "int16 nullable plain, block 32, 81-row pattern, script [next(1), next(7)]: a batch spanning a block boundary lost rows / reported wrong row ids (155 050 cases)"),
]


def fixed_lines():
    import subprocess
    log = subprocess.run(["git", "-C", "/repo", "log", "--format=%h %s"], capture_output=True, text=True).stdout.splitlines()
    out = []
    for prefix, prop, what in FIXED:
        sha = next((l.split()[0] for l in log if l.split(" ", 1)[1].startswith(prefix)), None)
        if sha:
            out.append(f"fixed: property={prop} {sha} {what}")
    return out


def main():
    kpath = os.path.join(VERIF, "known_findings.json")
    kj = json.load(open(kpath))
    have = {f["cases_file"] for f in kj["findings"]}
    files = sorted(os.listdir(os.path.join(VERIF, "known")))
    # drop entries whose list vanished
    kj["findings"] = [f for f in kj["findings"] if os.path.basename(f["cases_file"]) in files]
    kj["findings"] = []          # titles are recomputed from TITLES every time
    for fn in files:
        rel = f"known/{fn}"
        prop, sig = (fn[:-7] if fn.endswith(".txt.gz") else fn[:-4]).split(".", 1)
        title, where = f"failing cases with signature {sig}", "see witness"
        for p, rx, t, w in TITLES:
            if p == prop and re.search(rx, sig):
                title, where = t, w
                break
        import gzip
        fp = os.path.join(VERIF, "known", fn)
        first = next((l.strip() for l in (gzip.open(fp, "rt") if fn.endswith(".gz") else open(fp)) if not l.startswith("#")), "")
        kj["findings"].append({"id": f"KF-{prop}-{sig}", "property": prop, "title": title, "where": where,
                               "signature": sig, "witness_case": first, "cases_file": rel})
    kj["findings"].sort(key=lambda f: f["id"])
    kj["fixed"] = fixed_lines()
    json.dump(kj, open(kpath, "w"), indent=1)
    print(len(kj["findings"]), "findings")


if __name__ == "__main__":
    main()
