#!/bin/bash
# Re-run every seeded change against the quick check of the property it breaks (on /repo's current HEAD).
# usage: all_seeds.sh [seed ...]     (default: every directory under seeded/)
cd /verif
seeds=${@:-$(ls seeded)}
: > /tmp/all_seeds_summary.txt
for t in $seeds; do
  p=${t%b}; p=${p%c}
  if ! git -C /repo apply --check /verif/seeded/$t/patch.diff 2>/dev/null; then echo "$t: PATCH DOES NOT APPLY" | tee -a /tmp/all_seeds_summary.txt; continue; fi
  tools/try_seed.sh $t $p 2>&1 | tee -a /tmp/all_seeds_summary.txt
done
python3 tools/seed_meta.py > /dev/null 2>&1
