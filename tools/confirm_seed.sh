#!/bin/bash
# Confirm a seeded change produced by a sub-agent in /tmp/seed_<tag>: demo fails with the patch, passes
# without it, repo test suite passes with it. Stores patch.diff, seed_demo.rs and logs in /verif/seeded/<tag>/.
# usage: confirm_seed.sh <tag>   (tag = C07, C07b, ...)
set -u
tag=$1; wt=/tmp/seed_$tag; out=/verif/seeded/$tag
mkdir -p $out
cd $wt || exit 2
git diff -- src > $out/patch.diff
cp examples/seed_demo.rs $out/seed_demo.rs
[ -s $out/patch.diff ] || { echo "empty patch"; exit 2; }
echo "== demo WITH change" > $out/confirm.log
cargo run --offline --example seed_demo >> $out/confirm.log 2>&1; with_rc=$?
echo "rc=$with_rc" >> $out/confirm.log
git stash -q -- src
echo "== demo WITHOUT change" >> $out/confirm.log
cargo run --offline --example seed_demo >> $out/confirm.log 2>&1; without_rc=$?
echo "rc=$without_rc" >> $out/confirm.log
git stash pop -q
echo "== test suite WITH change" >> $out/confirm.log
cargo test --workspace --no-fail-fast --offline > $out/tests.log 2>&1
grep -E "^test result|FAILED|failed" $out/tests.log | grep -v "^test .* ok$" | head -40 >> $out/confirm.log
nfail=$(grep -E "^test .* FAILED|\.\.\. FAILED" $out/tests.log | grep -v test_scan_dict_i32 | wc -l)
echo "with_rc=$with_rc without_rc=$without_rc other_test_failures=$nfail" | tee -a $out/confirm.log
tail -c 3000 $out/tests.log > $out/tests_tail.log; rm -f $out/tests.log
