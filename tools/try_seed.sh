#!/bin/bash
# Apply a seeded change to /repo, run the given checks (quick tier), record the verdicts, undo the change.
# usage: try_seed.sh <tag> <prop> [<prop>...]     e.g. try_seed.sh C07 C07 C12
tag=$1; shift
d=/verif/seeded/$tag
cd /repo || exit 2
git diff --quiet || { echo "/repo has uncommitted changes"; exit 2; }
git apply $d/patch.diff || { echo "patch does not apply"; exit 2; }
for p in "$@"; do
  tier=${TIER:-quick}
  ( cd /verif && ./check $p --tier $tier > $d/detect_$p.log 2>&1; echo "exit=$?" >> $d/detect_$p.log )
  echo "$tag vs $p: $(grep -c '^VIOLATION' $d/detect_$p.log) VIOLATION lines; $(tail -2 $d/detect_$p.log | tr '\n' ' ')"
done
git -C /repo checkout -- .
# rebuild the harness from the restored tree (otherwise later --no-build runs would use the mutated binary)
(cd /verif && python3 checks/lib/runner.py build > /dev/null)
