#!/usr/bin/env python3
"""Regenerate /verif/MANIFEST.json from the table below (and validate it against the schema)."""
import json, os, subprocess, sys
VERIF = os.path.dirname(os.path.dirname(os.path.abspath(__file__)))

HOOK_COMMITS = subprocess.run(["git", "-C", "/repo", "log", "--format=%h %s", "--grep=^verif hooks"],
                              capture_output=True, text=True).stdout.strip().splitlines()

# property -> (engine, level, technique, text, note, design_ref, has_thorough)
CHECKS = {
    "C01": ("E1-small-scope", "exploration",
            "exhaustive small-scope enumeration (query corpus x databases x engines x statistics), differential oracle optimizer off vs on; plus exhaustive per-rule check: every rewrite rule x every atom plan that matches it x every database, both sides evaluated on the real executors",
            "Every query of a fixed, simplest-first corpus is executed on every database instance, engine and statistics assignment with the optimizer disabled and enabled; the two answers must agree. The enumeration is complete for the stated corpus and data domain; it is a bounded forall, not a proof.",
            "Bounded: qgen corpus (~820 quick / ~1150 thorough queries), <=5-row tables over {NULL,0..4}; unoptimised plan is the reference; queries whose unoptimised plan cannot run are not comparable (counted as skipped). The per-rule pass (E5) applies each of the optimizer's rewrite rules once, in isolation, to every plan of a fixed atom list and compares original and rewritten plan on every database; rules that never fire on the atom list are reported as uncovered in the evidence, not as verified.",
            "DESIGN.md §4 C01"),
    "C02": ("E1-small-scope", "exploration",
            "exhaustive small-scope enumeration (query corpus x databases x engines) against an independent reference implementation (SQLite)",
            "Every corpus query in the SQLite-compatible subset is executed on every database instance on both engines and compared (multiset / key sequence) with SQLite 3.40 on identical data.",
            "Bounded as C01 (the corpus includes CASE with overlapping branches, string-valued expressions, LIMIT/OFFSET without ORDER BY judged by row count, ORDER BY on unselected keys, re-sorted ordered derived tables); trusts SQLite on the subset listed in checks/dialect.md.",
            "DESIGN.md §4 C02"),
    "C03": ("E2-history-explorer", "model_checking",
            "bounded exhaustive exploration of DDL/DML/reopen histories on the real disk engine, compared step by step with a plain reference model",
            "All model-valid operation sequences up to the depth bound from four start states (empty; populated; churned; churned and reopened twice) are executed on the real engine with reopen cycles; after every reopen tables (rows + definitions) must equal the model and a post-reopen script must succeed.",
            "Bounded: depth 4 (quick) / 5 (thorough); two tables; views/indexes/functions need not survive but must not break reopening; single session.",
            "DESIGN.md §4 C03"),
    "C04": ("E3-fault-enumerators", "fault_enumeration",
            "exhaustive crash-point x torn-write-prefix enumeration on the real write path, recovery compared with a reference model",
            "Each history is executed once with a recorder armed at every persistence step; the database is then recovered from every crash state (every step x every byte prefix of the write in flight; manifest records torn at every byte) and compared with model(acked) / model(acked + interrupted op); a post-recovery script and a second reopen must succeed; crash points of the recovery itself are enumerated one level deep.",
            "Bounded: 52 (quick) / about 2 000 (thorough) histories of <= 9 ops on one table (incl. whole-table deletes, compaction to nothing, re-issued row-set ids); crash model = ordered persistence with a torn in-flight write (directory-entry loss and reordering of unsynced writes not modelled); crash points are the instrumented steps.",
            "DESIGN.md §3 E3, §4 C04"),
    "C05": ("E2-history-explorer", "model_checking",
            "bounded exhaustive lock-step differential exploration of statement histories, memory engine vs disk engine layouts",
            "Every statement history up to the depth bound followed by a fixed query battery is executed on the memory engine and on each disk layout; outcome classes and results must agree statement by statement.",
            "Bounded: 12 statement kinds (incl. INSERT..SELECT of no rows), depth 3 (quick) / 4 (thorough) from the empty database and 2 / 3 from a churned start state (row-sets compacted to nothing, reopened twice), 3 table kinds + one table with a column of every type (depth 2 / 3), 2-5 disk layouts; error classes compared, not messages.",
            "DESIGN.md §4 C05"),
    "C06": ("E1-small-scope", "exploration",
            "exhaustive small-scope enumeration of value sequences x encodings x block sizes x start rows x read/skip scripts on the real column builders and iterators, slice-arithmetic oracle",
            "Every array up to the length bound over a 3-value domain (+NULL) and six fixed long patterns is encoded with every type/nullability/encoding/block size and read back from every start row under every read/skip script up to the script bound; every returned (row id, batch) must equal the corresponding slice of the written sequence and nothing may be lost.",
            "Bounded: array length <= 4 (quick) / 6 (thorough), scripts of <= 2 / 3 actions + drain, 3-5 block sizes, 11 types; column level (one-column hook); vectors excluded; empty columns excluded.",
            "DESIGN.md §4 C06"),
    "C07": ("E2-history-explorer", "model_checking",
            "bounded exhaustive exploration of insert/delete/compact/reopen histories on the real engine vs a plain multiset model, checked after every step",
            "All operation sequences of the depth bound over overlapping insert batches, predicate deletes, forced compaction and reopen are executed; after every step the table must equal the model, DML counts must match, and the final ordered scan must be sorted.",
            "Bounded: depth 4 (quick) / 5 (thorough) from the empty table and 3 / 4 from a churned start state (two delete vectors per row-set, compacted to nothing, reopened); one table (pk / no pk); a second alphabet with a 40-row batch (a row-set of several blocks) and deletes covering whole blocks of it, depth 3 / 4; compaction driven through the real compactor by a paused clock.",
            "DESIGN.md §4 C07"),
    "C08": ("E4-gate-scheduler", "model_checking",
            "stateless model checking of the implementation: exhaustive exploration of task interleavings at instrumented yield points under a controlled scheduler, preemption-bounded (CHESS-style), with a per-state invariant",
            "For each reader/writer/compactor/vacuum workload every schedule of the real tokio tasks at the instrumented gates within the preemption bound is executed on the real engine (exact quiescence detection, paused clock, replay-checked determinism). At every quiescent state the pinned-version/file invariant is evaluated; at the end each reader's rows are compared with the table as of its pin, derived from the schedule.",
            "Bounded: 10-11 workloads (three of them start with delete vectors on the row-sets the compaction retires), 2-3 actors, preemption bound 1-2 (quick) / 2-3 (thorough), per-shard schedule cap reported when hit; interleavings only at gates on a current-thread runtime (code between gates atomic); no weak-memory or data-race coverage.",
            "DESIGN.md §3 E4, §4 C08"),
    "C09": ("E4-gate-scheduler", "model_checking",
            "stateless model checking of the implementation: exhaustive preemption-bounded exploration of client/compactor interleavings at instrumented yield points, final-state oracle against a reference model",
            "For each of 18 client workloads (two tables with two row-sets each; a table with an over-budget row-set that compaction leaves alone, so that a compaction is partial), every schedule within the preemption bound is executed on the real engine; final and reopened table contents must equal initial + acknowledged inserts - acknowledged deletes; no panic or deadlock.",
            "Bounded: 1-2 sessions x 1-2 statements, 1-2 compactor passes, preemption bound 1-2 (quick) / 2-3 (thorough); commutative workloads so the expected state is unique; statements that fail are required to have no effect.",
            "DESIGN.md §3 E4, §4 C09"),
    "C10": ("E4-gate-scheduler", "model_checking",
            "stateless model checking of the implementation (preemption-bounded schedule exploration at yield points) with a brute-force serializability oracle over a reference model",
            "For each multi-session workload every schedule within the preemption bound is executed; the acknowledged statements must admit a serial order (respecting session order) that reproduces every observed result and the final tables on the reference model; no session or task panics, no deadlock, shutdown and reopen succeed and agree.",
            "Bounded: 30 (quick) / 32 workloads incl. views / indexes racing CREATE TABLE and two DELETEs of the same / of different rows; 13 of them also on the memory engine (gates of Database::run only); in the two-DELETE workloads the point at which each transaction pins its snapshot (gate txn.start) is a scheduling choice; every commit can be preempted between building its snapshot and the manifest append (gate commit.built); 2 sessions (quick) / up to 3 (thorough), <= 2 statements each, preemption bound 2/3. The clause about free-running multi-threaded runs is NOT decided (gate interleavings on a current-thread runtime only).",
            "DESIGN.md §3 E4, §4 C10"),
    "C13": ("E1-small-scope", "exploration",
            "exhaustive small-scope enumeration of key-range predicates x table layouts, against rows computed from the known contents (and the unoptimised full scan)",
            "Every combination of primary-key position, key type, block layout, row-set shape, bound kind, boundary constant, residual predicate and select list of the stated domain is executed with range pushdown; results must equal the rows computed independently from the inserted data.",
            "Bounded: keys 0..61, 154 predicates (one- and two-sided key bounds, residual ranges on another column on either side, bounds whose constant has another numeric type than the key), five key sets whose duplicates straddle every block boundary for any block capacity (pairs from even / odd positions, triples, runs longer than a block), <= 2 row-sets + deletes, one 5000-row table for 2048-row batch boundaries; SQL level only (the storage-level scan API is reached through SQL).",
            "DESIGN.md §4 C13"),
    "C14": ("E1-small-scope", "exploration",
            "exhaustive small-scope enumeration of scalar expressions x operand domains x batch lengths x evaluation contexts, against a scalar three-valued reference interpreter",
            "Every expression of the list is evaluated over columns cycling through boundary domains with NULLs in batches of the stated lengths, as projection and (booleans) inside WHERE / OR / NOT / AND; every row is compared with a scalar SQL reference; overflow cases must be errors; all binary constant expressions must fold to their run-time value.",
            "Bounded: ~85 expressions (incl. the untyped NULL literal, CASE with overlapping branches), the operand type matrix (15 binary operators x all ordered pairs of 18 operands of 11 types + 12 cast targets + 40 unary operators / functions / aggregates x 18 operands: whatever the type checker accepts must evaluate or report a data error; mirrored comparisons agree), mixed-width integer comparisons beyond the narrower type's range, domains of 6 values per type, batch lengths {1,36,63,64,65,130} (quick) / 0..200 (thorough), five sparse NULL layouts (NULLs in one 64-row bitmap word only), 22 nested arithmetic/cast expressions over all pairs of {NULL,0,+-1,INT MIN,INT MAX}; raw bits under NULL slots are reached only through computed NULLs at SQL level.",
            "DESIGN.md §4 C14"),
    "C15": ("E3-fault-enumerators", "fault_enumeration",
            "exhaustive single-fault injection at every (operator, output item, occurrence) position x {error, panic} of every statement shape",
            "For each statement shape and engine one fault-free run lists every position at which an operator hands an item (or end of stream) to its consumers; one fault is then injected at every position; the statement must return Err or the complete fault-free answer, and a failed DML must leave the tables unchanged (also after reopen).",
            "Bounded: 24 statement shapes (incl. nested-loop semi / anti joins and three COPY .. TO exports of a query / table / join), 2-3 engine configurations, 2300-row inputs (3 chunks) and a 20-chunk input (fault positions beyond an operator's 16-slot output channel), single faults; faults on the committing DML operator's own output are excluded (after the commit point).",
            "DESIGN.md §3 E3, §4 C15"),
    "C16": ("E1-small-scope", "exploration",
            "exhaustive small-scope enumeration: (a) runtime vs statically derived column types over the statement corpus, (b) INSERT sources x column types x constraints, (c) multi-row VALUES lists vs the same rows inserted one by one, (d) INSERT column lists in every permutation",
            "(a) every corpus statement that executes: each returned chunk carries exactly the statically derived column kinds; (b) every combination of column type, nullability/primary-key constraint and insert source: the stored value has the declared type, is NULL only if nullable and equals the lossless conversion, or the INSERT failed.",
            "Bounded: 10 column types (incl. VECTOR(3), INTERVAL), 22 literals + NULL/omitted/INSERT..SELECT sources; 7 column types x all triples over 7 literals for multi-row VALUES (differential: three single-row INSERTs); expected stored values asserted only where the conversion is unambiguous.",
            "DESIGN.md §4 C16"),
    "C17": ("E1-small-scope", "exploration",
            "exhaustive small-scope enumeration of accepted statements x databases x engines x statistics, with a static well-formedness walk of every optimised plan and a guarded build/run",
            "For every statement of the corpus that the binder accepts: the optimizer terminates without panic, the optimised plan satisfies the executor's structural requirements (walked statically on the real plan with the real schema analysis), its output types equal the bound plan's, and building and running it does not panic.",
            "Bounded: qgen corpus (incl. aggregates / windows / joins over every numeric column type and IN subqueries with computed select items) + 65 extra forms (DISTINCT ON with ORDER BY, correlated grouped scalar subqueries, computed columns of derived tables in join conditions, scalar subqueries over empty inputs / as sort keys), 6 (quick) / 60 (thorough) databases, 2 engines, 2-3 statistics assignments; plus the statement-form explorer: ~180 DDL / settings / utility / odd-DML / unsupported-SQL forms alone and in ordered pairs through Database::run (no panic, session and directory usable afterwards); planning time above 2.5 s is reported (egg's wall-clock limit is uncontrolled).",
            "DESIGN.md §4 C17"),
    "C18": ("E3-fault-enumerators", "fault_enumeration",
            "exhaustive byte-level corruption enumeration (bit flips, overwrites, truncations at every offset of every column/index file) with query-sequence oracle",
            "Every single-byte corruption and every truncation of every data and index file of the victim table is applied to a copy of a closed database; the database is reopened and the query sequences are run; each query must fail or return exactly the original rows, repeated reads included, and the other table must stay readable.",
            "Bounded: one victim table (3 columns, ~40 rows, several blocks), one bit per byte in the quick tier (all 8 in thorough), corruption while closed; CRC32 as configured by default_for_cli.",
            "DESIGN.md §3 E3, §4 C18"),
    "C11": ("E1-small-scope", "exploration",
            "exhaustive small-scope enumeration of operator inputs x operator parameters on hand-built physical plans, differential oracle between the physical implementations",
            "For every pair of input contents of the stated domain, every join type, key-list width and residual option, the nested-loop, hash and merge join plans are built programmatically and run by the real executor; likewise hash/sort/simple aggregation and limit(order) vs top-N; all implementations must return the same multiset.",
            "Bounded: inputs = all multisets of <= 2 (quick) / 3 (thorough) rows over a 6-row universe with NULL and duplicate keys, plus 1030/2050-row inputs crossing the 1024-row chunk; INT keys on both sides and INT vs BIGINT/SMALLINT keys; order-dependent aggregates (first/last) excluded.",
            "DESIGN.md §4 C11"),
    "C12": ("E2-history-explorer", "model_checking",
            "bounded exhaustive history exploration on the real engine (all op sequences up to depth d x all ORDER BY/LIMIT/OFFSET queries), relational oracle",
            "Every population history up to the depth bound, on every engine/layout of the configuration list, is executed on the real engine and every ORDER BY/LIMIT/OFFSET query of the small query space is judged by the relations the property states (permutation, sortedness, slice, count, membership). Complete within the stated bounds; nothing is sampled.",
            "Bounded: histories <= 3 (quick) / 4 (thorough) ops over 3 insert batches, 2 deletes, forced compaction; 2-column integer table with the key first, without a key, and with the key as second column; ORDER BY on a key that is not selected; ordered derived tables re-sorted by another key; NULL-smallest ordering assumed; single session.",
            "DESIGN.md §4 C12"),
    "C19": ("E1-small-scope", "exploration",
            "exhaustive enumeration of all pairs/triples of a boundary value set per type, cross-checking every relation the engine derives from values",
            "For each type all pairs and triples of V_T are checked for the equivalence and total-order laws of = and <, and ORDER BY (asc/desc), GROUP BY, DISTINCT, hash join, MIN/MAX and the primary-key storage order (before/after compaction) must describe the same relations; printed values re-inserted as text must be equal.",
            "Bounded: 12 types (incl. VECTOR(3)), 4-12 values each (intervals with a sub-day part, blobs with quotes and backslashes); the six comparison operators and hash-join equality between columns of two different integer types against integer comparison (all ordered type pairs, values beyond the narrower range); NaN/infinity literals not reachable; DataValue-level Hash is checked through GROUP BY / hash join behaviour.",
            "DESIGN.md §4 C19"),
    "C20": ("E1-small-scope", "exploration",
            "exhaustive small-scope enumeration of column types x boundary cell values x CSV options x engines, round-trip oracle",
            "Every table of the stated domain is exported with COPY TO and imported with COPY FROM under the same options; the two tables must be equal as multisets.",
            "Bounded: 12 types (incl. INTERVAL, BLOB, VECTOR), 1-2 columns, boundary values (NULL, '', delimiter / quote / newline / backslash / edge whitespace in strings, extremes, intervals of 24 hours and more), 7 option sets (delimiter, quote, header, escape), one 1030-row table; tables compared as printed and by value (= against the inserted literals); export of a query result (COPY (SELECT .. WHERE ..) TO) over a two-row-set table x 6 filters x 4 option sets.",
            "DESIGN.md §4 C20"),
}
NOT_YET = {}
ALL = [f"C{i:02d}" for i in range(1, 21)]


def main():
    checks = []
    for pid in ALL:
        if pid not in CHECKS:
            continue
        eng, level, tech, text, note, ref = CHECKS[pid]; thorough = True
        c = {
            "property_id": pid,
            "quick_cmd": f"./check {pid} --tier quick",
            "evidence_file": f"/verif/evidence/{pid}.json",
            "replay_cmd_template": f"./check {pid} --replay {{path}}",
            "engine": eng,
            "level_claimed": {"category": level, "text": text, "design_ref": ref},
            "level_note": note,
            "technique": tech,
        }
        if thorough:
            c["thorough_cmd"] = f"./check {pid} --tier thorough"
        checks.append(c)
    na = [{"property_id": p, "reason": NOT_YET.get(p, "check not built yet in this round (bounded exhaustive formulation exists in DESIGN.md §4; not claimed until its check is registered)")}
          for p in ALL if p not in CHECKS]
    m = {
        "version": 1,
        "setup_cmd": "cd /verif && CARGO_NET_OFFLINE=true python3 checks/lib/runner.py build",
        "hooks": {
            "guard": "cargo feature `verif` of the risinglight crate (all hook code is under #[cfg(feature = \"verif\")])",
            "enable": "the harness crate /verif/harness depends on risinglight by path (/repo) with features=[\"verif\"]; every check first runs `cargo build --offline` there, which rebuilds /repo's current working tree",
            "baseline_off_cmd": "cd /repo && cargo nextest run --workspace --no-fail-fast --tool-config-file pb:/w/lib/nextest.toml --profile pb --test-threads 8 --offline || cargo test --workspace --no-fail-fast --offline",
            "source_commits": [l.split()[0] for l in HOOK_COMMITS],
            "add_only": True,
        },
        "engines": [
            {"name": "E1-small-scope", "path": "checks/ + harness/src/sqlrun.rs", "kind_free_text": "exhaustive small-scope enumeration of queries x data x configurations on the real engine vs. reference/differential oracle"},
            {"name": "E2-history-explorer", "path": "checks/ + harness/src/sqlrun.rs", "kind_free_text": "bounded exhaustive exploration of operation histories on the real engine (fresh database per history, paused tokio clock drives the real compactor)"},
            {"name": "E3-fault-enumerators", "path": "harness/src", "kind_free_text": "exhaustive crash-point x torn-write-prefix, operator-fault and byte-corruption enumeration"},
            {"name": "E4-gate-scheduler", "path": "harness/src/sched.rs", "kind_free_text": "stateless model checking of the real tokio tasks under a controlled scheduler (gates + exact quiescence), preemption-bounded DFS"},
            {"name": "E5-rule-checker", "path": "harness/src", "kind_free_text": "per-rewrite-rule exhaustive instantiation and e-class enumeration"},
        ],
        "checks": checks,
        "not_applicable": na,
        "notes": "Exit 0 = property held on everything explored (KNOWN-FINDING lines list recorded genuine defects, see known_findings.json); exit 1 = VIOLATION line; exit 2 = machinery error, never a verdict. VERIF_SEED only permutes reporting order, never the explored set.",
    }
    for e in m["engines"]:
        e["serves_properties"] = [c["property_id"] for c in checks if c["engine"] == e["name"]]
    json.dump(m, open(os.path.join(VERIF, "MANIFEST.json"), "w"), indent=1)
    try:
        import jsonschema
        jsonschema.validate(m, json.load(open("/root/.vp/MANIFEST.schema.json")))
        print("MANIFEST.json valid;", len(checks), "checks,", len(na), "not_applicable")
    except ImportError:
        print("jsonschema not available; not validated")


if __name__ == "__main__":
    main()
