#!/bin/bash
# Run every registered check of a tier sequentially; one summary line per property. usage: run_all.sh quick|thorough [outdir]
tier=${1:-quick}; out=${2:-/tmp/runall_$tier}; mkdir -p $out; cd /verif
python3 checks/lib/runner.py build > /dev/null || { echo "build failed"; exit 2; }
: > $out/summary.txt
for i in $(seq -w 1 20); do
  p=C$i; s=$(date +%s)
  ./check $p --tier $tier --no-build > $out/$p.log 2>&1; rc=$?
  echo "$p exit=$rc $(( $(date +%s) - s ))s KF=$(grep -c '^KNOWN-FINDING' $out/$p.log) V=$(grep -c '^VIOLATION' $out/$p.log) | $(grep " \[$tier\] " $out/$p.log | tail -1 | cut -c1-150)" | tee -a $out/summary.txt
done
