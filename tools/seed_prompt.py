#!/usr/bin/env python3
"""Print the prompt given to a seeding sub-agent for property <id> (only the property text + its worktree)."""
import json, sys
pid = sys.argv[1]
variant = sys.argv[2] if len(sys.argv) > 2 else ""
wt = f"/tmp/seed_{pid}{variant}"
p = next(json.loads(l) for l in open('/verif/properties.jsonl') if json.loads(l)['id'] == pid)
print(f"""You are helping test a verification effort by playing the adversary. You work ONLY inside the scratch git worktree {wt} (a worktree of the Rust project risinglightdb/risinglight, an educational OLAP SQL database: binder, egg-based optimizer, vectorized executor, columnar on-disk storage engine). Do not read or write anything under /verif or /repo, and do not look outside {wt} except for the Rust toolchain/cargo registry. There is no network; always pass --offline to cargo.

Here is a semantic property of the system that should always hold:

  {p['id']}: {p['title']}
  Statement: {p['statement']}
  Quantifier: {p['quantifier']['text']}
  Why the existing tests cannot settle it: {p['why_tests_cant']}
  Code involved: {', '.join(p['anchors']['files'])}

YOUR TASK: make ONE small, realistic change to the source under {wt}/src (the kind of slip a maintainer could plausibly make in a refactor or "optimisation": an off-by-one, a dropped side-condition, a swapped argument, a check moved after the act it guards, a missing reset, acknowledging before persisting, ...) that BREAKS this property, while the code still compiles and the project's existing test suite still passes. The breakage must need something specific to manifest — a particular interleaving, a crash or fault at a particular point, a multi-step sequence of operations, an unusual input (NULLs, duplicates, several row-sets, block boundaries, extreme values), or two cooperating sites that each look fine alone — NOT something that ordinary use (a plain insert + select) would expose at once. {('Variant hint: ' + ' '.join(sys.argv[3:])) if len(sys.argv) > 3 else ''}

Requirements:
1. Do not touch tests, Cargo.toml, or anything guarded by `#[cfg(feature = "verif")]` (those are inert hooks; leave them exactly as they are; the change must be in the normal, always-compiled code path).
2. Provide a demonstration: a Rust integration test file {wt}/tests/seed_demo.rs is NOT allowed (the tests dir uses custom harnesses); instead write the demonstration as an example program {wt}/examples/seed_demo.rs (run with `cargo run --offline --example seed_demo`) that uses the public API (`risinglight::Database::new_in_memory()`, `Database::new_on_disk(SecondaryStorageOptions {{ .. }})`, `db.run(sql).await`, `risinglight::storage::*`, etc.; build a tokio runtime yourself) and exits with status 0 when the property holds and non-zero (panic/assert) when it is violated. It must FAIL with your change and PASS without it (verify both: `git stash` your src change or use `git diff > patch; git checkout src`, run, re-apply). Put scratch databases under /dev/shm/seed_{pid}{variant}_* and delete them. If the demonstration is inherently about a crash or interleaving that cannot be produced deterministically from the public API, make the demo as close as possible (e.g. simulate the crash by copying/truncating files, or loop an interleaving with explicit tokio tasks and yields) and explain exactly what is needed.
3. Run the existing test suite with your change applied and confirm it still passes: `cd {wt} && cargo test --workspace --no-fail-fast --offline 2>&1 | tail -40` (takes ~5-6 minutes; the single test `primitive_column_factory::tests::test_scan_dict_i32` is known to fail already without any change — that one failure is expected and allowed; nothing else may fail). To save build time you may first `cp -r /repo/target {wt}/target` (that single read-only copy from /repo is allowed).
4. Leave your source change applied in the worktree (uncommitted), with the example file present. Save the source change alone (without the example) as {wt}/patch.diff via `git diff -- src > patch.diff`.

Finally report, concisely: (a) the change (file, function, what and why it looks plausible); (b) what it needs in order to manifest; (c) the exact commands you ran and their outcomes (demo with change: fails; demo without: passes; test suite with change: summary line(s)); (d) anything surprising — in particular if you discovered that the UNCHANGED code already violates the property for your demo scenario, say so clearly and pick a different scenario where the unchanged code is right.""")
